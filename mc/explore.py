"""Explicit-state breadth-first search over the real transition function.

A state is represented by the history (init descriptor followed by op descriptors) that
reaches it. Live objects are never copied: every transition rebuilds fresh real objects
and replays the history (this is also the determinism test).

A Spec provides:
  initials()            -> list of JSON init descriptors
  build(init)           -> S (fresh real objects + reference model)
  ops(S)                -> list of JSON op descriptors enabled in S (simplest first)
  apply(S, op)          -> list of (sig, detail) violations (step agreement); mutates S
  check(S)              -> list of (sig, detail) violations (state invariant / observation sweep)
  key(S)                -> hashable canonical fingerprint (impl internals + model)
  model_key(S)          -> hashable (model only; for distinct_model_states)
  nontrivial(S_before, op, S_after) -> bool  (optional)
"""
from __future__ import annotations

import os

from . import run
from .canon import digest

_SPEC = None


def replay(spec, hist):
    S = spec.build(hist[0])
    for op in hist[1:]:
        spec.apply(S, op)
    return S


def run_history(spec, hist):
    """Replay a full history and return all violations met on its last step (for --replay)."""
    S = spec.build(hist[0])
    viols = []
    for i, op in enumerate(hist[1:]):
        v = list(spec.apply(S, op))
        c = [] if v else list(spec.check(S))
        if i == len(hist) - 2:
            viols = v + c
    if len(hist) == 1:
        viols = list(spec.check(S))
    return viols


def _expand(batch):
    spec = _SPEC
    out = []  # (hist, keydigest, modelkeydigest)
    viols = []
    ntrans = 0
    nontriv = 0
    per_op = {}
    det_checked = 0
    for hist in batch:
        S0 = replay(spec, hist)
        ops = spec.ops(S0)
        for j, op in enumerate(ops):
            S = replay(spec, hist)
            before = spec.model_key(S) if hasattr(spec, "model_key") else None
            v = list(spec.apply(S, op))
            if not v:  # after a violating step the state is corrupt; its sweep would only echo the defect
                v = list(spec.check(S))
            ntrans += 1
            kind = op[0] if isinstance(op, (list, tuple)) else str(op)
            per_op[kind] = per_op.get(kind, 0) + 1
            after = spec.model_key(S) if hasattr(spec, "model_key") else None
            if hasattr(spec, "nontrivial"):
                if spec.nontrivial(before, op, after):
                    nontriv += 1
            elif before != after:
                nontriv += 1
            h2 = list(hist) + [op]
            if v:
                for sig, detail in v:
                    viols.append({"sig": sig, "case": {"history": h2}, "detail": detail})
                continue  # a violating transition is not expanded further
            k = digest(spec.key(S))
            if hasattr(spec, "expandable") and not spec.expandable(op):
                out.append((None, k, digest(after)))
                continue
            if j == 0:
                # determinism test: rebuild the same history, same fingerprint
                S2 = replay(spec, hist)
                spec.apply(S2, op)
                spec.check(S2)
                if digest(spec.key(S2)) != k:
                    raise run.HarnessError("non-deterministic replay of %r" % (h2,))
                det_checked += 1
            out.append((h2, k, digest(after)))
    return out, viols, ntrans, nontriv, per_op, det_checked


def bfs(spec, ctx, max_depth, batch=8, state_cap=None, time_cap=None):
    """Run BFS to closure or max_depth. Fills ctx.cov and ctx.violations."""
    global _SPEC
    _SPEC = spec
    seen = {}
    model_states = set()
    frontier = []
    viols = []
    for init in spec.initials():
        S = spec.build(init)
        v = list(spec.check(S))
        if v:
            for sig, detail in v:
                viols.append({"sig": sig, "case": {"history": [init]}, "detail": detail})
            continue
        k = digest(spec.key(S))
        if k not in seen:
            seen[k] = 0
            frontier.append([init])
            if hasattr(spec, "model_key"):
                model_states.add(digest(spec.model_key(S)))
    ninit = len(frontier)
    transitions = 0
    nontriv = 0
    per_op = {}
    det = 0
    depth = 0
    closure = False
    capped = False
    samples = []
    terminal = set()
    known = run.load_known(ctx.prop)
    stopped_on_violation = False
    import time as _time
    t_start = _time.time()
    timed_out = False
    while frontier:
        if depth >= max_depth:
            break
        if time_cap and _time.time() - t_start > time_cap:
            # a level is never cut short: the levels completed so far are fully explored, the search just does not go deeper
            timed_out = True
            break
        batches = [frontier[i:i + batch] for i in range(0, len(frontier), batch)]
        results = run.pmap(_expand, batches, ctx.jobs)
        nxt = []
        for out, v, nt, nn, po, dc in results:
            transitions += nt
            nontriv += nn
            det += dc
            viols.extend(v)
            for k_, n_ in po.items():
                per_op[k_] = per_op.get(k_, 0) + n_
            for h2, k, mk in out:
                model_states.add(mk)
                if h2 is None:
                    terminal.add(k)
                elif k not in seen:
                    seen[k] = depth + 1
                    nxt.append(h2)
        depth += 1
        if os.environ.get("VERIF_VERBOSE"):
            print("  [bfs %s] depth %d: states %d, frontier %d, transitions %d, violations %d" % (
                getattr(spec, "name", ""), depth, len(seen), len(nxt), transitions, len(viols)), flush=True)
        if nxt and len(samples) < 4:
            samples.append(nxt[len(nxt) // 2])
        frontier = nxt
        if any(v["sig"] not in known for v in viols):
            # BFS reaches shortest counterexamples first: once a level produced a violation that is
            # not a listed finding the verdict is decided; deeper levels would only add longer witnesses
            stopped_on_violation = True
            break
        if state_cap and len(seen) > state_cap:
            capped = True
            break
    if not frontier and not stopped_on_violation:
        closure = True
    if capped or timed_out:
        ctx.cov["cap_hit"] = True
        ctx.cov.setdefault("caps", []).append("%s: %s after depth %d (%d states); every history of length <= %d over the vocabulary is covered" % (
            getattr(spec, "name", type(spec).__name__), "time budget of %d s reached" % time_cap if timed_out else "state cap %d reached" % state_cap, depth, len(seen), depth))
    ctx.extend(viols)
    c = ctx.cov
    c["states"] = c.get("states", 0) + len(seen)
    c["transitions"] = c.get("transitions", 0) + transitions
    c["traces_validated_against_impl"] = c.get("traces_validated_against_impl", 0) + transitions
    c["distinct_model_states"] = c.get("distinct_model_states", 0) + len(model_states)
    c["nontrivial_transitions"] = c.get("nontrivial_transitions", 0) + nontriv
    c["determinism_replays"] = c.get("determinism_replays", 0) + det
    c["initial_states"] = c.get("initial_states", 0) + ninit
    c.setdefault("bfs_runs", []).append(
        {"name": getattr(spec, "name", type(spec).__name__), "states": len(seen), "transitions": transitions,
         "terminal_states_checked_not_expanded": len(terminal - set(seen)),
         "closure_reached": closure, "depth_completed": depth, "state_cap_hit": capped, "time_budget_hit": timed_out, "stopped_after_first_violating_level": stopped_on_violation,
         "per_operation_transitions": per_op})
    c["closure_reached"] = closure and c.get("closure_reached", True)
    c["max_depth"] = max(depth, c.get("max_depth", 0))
    for s in samples:
        ctx.sample(s)
    return seen
