"""Runner: parallel map, violation bookkeeping, known findings, evidence, replay files."""
from __future__ import annotations

import hashlib
import importlib
import json
import multiprocessing as mp
import os
import subprocess
import sys
import time
import traceback

VERIF = os.path.dirname(os.path.dirname(os.path.abspath(__file__)))
REPO = os.environ.get("VERIF_REPO", "/repo")
KNOWN_FILE = os.path.join(VERIF, "known_findings.json")


class HarnessError(Exception):
    """The machinery itself misbehaved (exit 2, never a VIOLATION)."""


# ---------------------------------------------------------------------------
# parallel map over a list of work items with a module-level function

_FUNC = None


def _call(arg):
    try:
        return ("ok", _FUNC(arg))
    except BaseException:
        return ("err", traceback.format_exc())


def pmap(func, items, jobs, chunksize=1):
    """Ordered parallel map (fork pool, one rdflib import). Exceptions in func are harness errors."""
    global _FUNC
    items = list(items)
    if not items:
        return []
    _FUNC = func
    if jobs <= 1 or len(items) == 1:
        out = [_call(x) for x in items]
    else:
        ctx = mp.get_context("fork")
        with ctx.Pool(min(jobs, len(items))) as pool:
            out = pool.map(_call, items, chunksize)
    res = []
    for tag, val in out:
        if tag == "err":
            raise HarnessError("worker failed:\n" + val)
        res.append(val)
    return res


def shards(items, n):
    items = list(items)
    n = max(1, min(n, len(items)))
    return [items[i::n] for i in range(n)]


# ---------------------------------------------------------------------------


class Ctx:
    def __init__(self, prop, tier, seed, jobs):
        self.prop = prop
        self.tier = tier
        self.seed = seed
        self.jobs = jobs
        self.violations = []  # dicts: sig, case, detail
        self.cov = {}
        self.samples = []
        self.assumptions = []
        self.t0 = time.time()
        self.deadline = None

    def violation(self, sig, case, detail):
        self.violations.append({"sig": sig, "case": case, "detail": detail})

    def extend(self, viols):
        self.violations.extend(viols)

    def sample(self, case, limit=6):
        if len(self.samples) < limit:
            self.samples.append(case)

    def add(self, key, n=1):
        self.cov[key] = self.cov.get(key, 0) + n


def load_known(prop):
    if not os.path.exists(KNOWN_FILE):
        return {}
    data = json.load(open(KNOWN_FILE))
    out = {}
    for e in data.get("findings", []):
        if e.get("property") == prop and e.get("status") == "known":
            out[e["signature"]] = e
    return out


def write_replay(prop, v):
    d = os.path.join(VERIF, "replays", prop)
    os.makedirs(d, exist_ok=True)
    body = json.dumps({"property": prop, "sig": v["sig"], "case": v["case"], "detail": v["detail"],
                       "hashseed": os.environ.get("PYTHONHASHSEED")}, indent=1, sort_keys=True, default=str)
    h = hashlib.sha1(body.encode()).hexdigest()[:12]
    path = os.path.join(d, h + ".json")
    with open(path, "w") as f:
        f.write(body)
    return path


def confirm(prop, path):
    """Re-run the case in a fresh subprocess; True if it reproduces."""
    r = subprocess.run([sys.executable, os.path.join(VERIF, "check"), prop, "--replay", path],
                       capture_output=True, text=True, timeout=600)
    return r.returncode == 1, r.stdout[-2000:] + r.stderr[-2000:]


def write_evidence(ctx, level, nviol):
    cov = dict(ctx.cov)
    if cov.get("cap_hit"):
        # a capped run is not called exhaustive: what was fully covered below the cap is listed under "caps"
        cov["exhaustive"] = False
    cov["samples"] = ctx.samples[:8] if ctx.samples else cov.get("samples", [])
    ev = {
        "property_id": ctx.prop,
        "tier": ctx.tier,
        "seed": ctx.seed,
        "level": level,
        "coverage": cov,
        "assumptions": ctx.assumptions,
        "wall_s": round(time.time() - ctx.t0, 2),
        "violations": nviol,
    }
    evdir = os.environ.get("VERIF_EVIDENCE_DIR") or os.path.join(VERIF, "evidence")  # (runs against a deliberately broken copy write elsewhere)
    os.makedirs(evdir, exist_ok=True)
    path = os.path.join(evdir, ctx.prop + ".json")
    tmp = path + ".tmp"
    with open(tmp, "w") as f:
        json.dump(ev, f, indent=1, default=str)
        f.write("\n")
    os.replace(tmp, path)
    return path


def run_check(prop, tier, seed, jobs):
    mod = importlib.import_module("mc.props." + prop)
    ctx = Ctx(prop, tier, seed, jobs)
    mod.run(ctx)
    if ctx.cov.get("cap_hit"):
        ctx.cov["exhaustive"] = False  # (a capped run is not called exhaustive; see coverage.caps)
    known = load_known(prop)
    by_sig = {}
    for v in ctx.violations:
        by_sig.setdefault(v["sig"], []).append(v)
    new_sigs = [s for s in by_sig if s not in known]
    known_hit = [s for s in by_sig if s in known]
    for s in sorted(known_hit):
        print("KNOWN-FINDING: property=%s %s [%d case(s); signature %s]" % (
            prop, known[s].get("what", ""), len(by_sig[s]), s))
    ctx.cov["known_finding_cases"] = sum(len(by_sig[s]) for s in known_hit)
    ctx.cov["violating_cases"] = sum(len(by_sig[s]) for s in new_sigs)
    ctx.cov["violation_signatures"] = sorted(new_sigs)[:50]
    rc = 0
    reported = 0
    confirmations = 0
    unconfirmed = []
    for s in sorted(new_sigs):
        # smallest case first
        vs = sorted(by_sig[s], key=lambda v: len(json.dumps(v["case"], default=str)))
        v = vs[0]
        path = write_replay(prop, v)
        if confirmations < 8 and os.environ.get("VERIF_NO_CONFIRM") != "1":
            # "the same schedule must fail every time": re-run the case from its replay file in a fresh process; a case that only
            # fails inside the exploring process (state carried over from an earlier case) is not reported as a violation by itself
            ok = False
            for cand in vs[:3]:
                path = write_replay(prop, cand)
                confirmations += 1
                ok, out = confirm(prop, path)
                if ok:
                    v = cand
                    break
            if not ok:
                unconfirmed.append((s, path, out))
                continue
        if reported < 25:
            print("VIOLATION property=%s replay=%s" % (prop, path))
            print("  signature: %s (%d case(s))" % (s, len(vs)))
            print("  detail: %s" % (json.dumps(v["detail"], default=str)[:600]))
        reported += 1
        rc = 1
    for s, path, out in unconfirmed:
        print("UNCONFIRMED: signature %s failed during exploration but its replay file %s passes in a fresh process%s\n%s" % (
            s, path, " (reported violations above are confirmed)" if rc else "", out[-400:]))
    if unconfirmed and rc == 0:
        print("HARNESS-ERROR: no violation of this run reproduces from its replay file")
        write_evidence(ctx, mod.LEVEL, len(ctx.violations))
        return 2
    write_evidence(ctx, mod.LEVEL, sum(len(by_sig[s]) for s in new_sigs))
    c = ctx.cov
    summary = {k: c[k] for k in ("states", "transitions", "evaluations", "distinct_nontrivial",
                                 "exhaustive", "closure_reached", "max_depth", "schedules") if k in c}
    print("%s tier=%s seed=%d %s known=%d new=%d wall=%.1fs" % (
        prop, tier, seed, summary, len(known_hit), len(new_sigs), time.time() - ctx.t0))
    return rc


def run_replay(prop, path):
    mod = importlib.import_module("mc.props." + prop)
    data = json.load(open(path))
    ctx = Ctx(prop, "quick", 0, 1)
    viols = mod.replay(ctx, data["case"])
    want = data.get("sig")
    sigs = sorted({v["sig"] for v in viols})
    if viols:
        known = load_known(prop)
        for v in viols[:5]:
            print("REPRODUCED property=%s signature=%s detail=%s" % (prop, v["sig"], json.dumps(v["detail"], default=str)[:1500]))
        if all(s in known for s in sigs):
            for s in sigs:
                print("KNOWN-FINDING: property=%s %s" % (prop, known[s].get("what", "")))
            return 0
        print("VIOLATION property=%s replay=%s" % (prop, path))
        return 1
    print("case passes (expected signature %s)" % want)
    return 0
