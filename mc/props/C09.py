"""C09 - Literal <-> Python value mapping is faithful and normalisation is idempotent.

(1) python -> literal over boundary products of every supported Python type; (2) lexical -> value for
every recognised datatype over all short strings of the datatype's own alphabet and, for date/time
types, the full product of per-field spellings; oracle = independent XSD 1.1 lexical/value reference.
"""
from __future__ import annotations

import itertools
import math
from datetime import date, datetime, time, timedelta, timezone
from decimal import Decimal

import rdflib
from rdflib.namespace import XSD
from rdflib.term import Literal, URIRef
from rdflib.xsd_datetime import Duration

from .. import run as R
from ..canon import tkey
from ..ref import xsd as X

ID = "C09"
LEVEL = "exploration"

NUM_ALPHA = ["0", "1", "9", "+", "-", ".", "e", "E", " "]
INT_TYPES = sorted(X.INT_RANGES)


# ---- python -> literal -------------------------------------------------------

def py_values(thorough):
    out = []
    ints = list(range(-1000 if thorough else -130, 1001 if thorough else 131)) + [s * (2 ** k + d) for s in (1, -1) for k in (7, 8, 15, 16, 31, 32, 63, 64) for d in (-1, 0, 1)] + [10 ** 20, -10 ** 20]
    out += [("int", v) for v in ints]
    floats = {m * 10.0 ** e for m in range(-99 if thorough else -12, 100 if thorough else 13) for e in range(-30, 31, 1 if thorough else 3)}
    floats |= {0.0, -0.0, 5e-324, 1.7976931348623157e308, float("inf"), float("-inf"), float("nan"), 0.1, 1 / 3, 1e16, 1e21, 1e22, 123456789.0, 1.5}
    out += [("float", v) for v in sorted(floats, key=lambda x: (x != x, x))]
    decs = set()
    for sign in ("", "-"):
        for coeff in ["0", "1", "5", "10", "12", "100", "123", "999"]:
            for exp in range(-30, 31, 1 if thorough else 5):
                decs.add(Decimal("%s%sE%d" % (sign, coeff, exp)))
    decs |= {Decimal("0.1"), Decimal("1.10"), Decimal("-0"), Decimal("1E+2"), Decimal("1.0")}
    out += [("Decimal", v) for v in sorted(decs)]
    out += [("bool", True), ("bool", False)]
    sig = ["a", '"', "\\", "\n", "\t", " ", "é", "\U0001F600", ""]
    strs = set(sig) | {a + b for a in sig for b in sig}
    out += [("str", s) for s in sorted(strs)]
    out += [("bytes", s.encode("utf-8")) for s in sorted(strs)]
    years, months, days = [1, 1970, 2024, 9999], [1, 2, 12], [1, 28, 29, 30, 31]
    for y, m, d in itertools.product(years, months, days):
        try:
            out.append(("date", date(y, m, d)))
        except ValueError:
            pass
    tzs = [None, timezone.utc, timezone(timedelta(hours=5, minutes=30)), timezone(timedelta(hours=-14)), timezone(timedelta(hours=14))]
    for h, mi, s, us, tz in itertools.product([0, 23], [0, 59], [0, 59], [0, 1, 999999], tzs):
        out.append(("time", time(h, mi, s, us, tzinfo=tz)))
    for y, m, d in itertools.product(years, [1, 12], [1, 28, 31]):
        for h, s, us, tz in itertools.product([0, 23], [0, 59], [0, 1, 999999], tzs):
            try:
                out.append(("datetime", datetime(y, m, d, h, 59 if h else 0, s, us, tzinfo=tz)))
            except ValueError:
                pass
    for dd, ss, us in itertools.product([0, 1, -1, 400], [0, 1, 59, 86399], [0, 1, 999999]):
        out.append(("timedelta", timedelta(days=dd, seconds=ss, microseconds=us)))
    # every combination of "absent / units / tens / boundary" per field (the lexical form is assembled field by field)
    for sign, dd, hh, mi, ss, us in itertools.product([1, -1], [0, 1, 10, 400], [0, 1, 10, 23], [0, 1, 10, 59], [0, 1, 9, 10, 20, 50, 59], [0, 1, 100000, 500000, 999990]):
        out.append(("timedelta", sign * timedelta(days=dd, hours=hh, minutes=mi, seconds=ss, microseconds=us)))
    for yy, mm, dd, ss in itertools.product([0, 1, 10, 100], [0, 1, 10, 12, 13, 100], [0, 1, 10], [0, 1, 10, 60, 600, 3600, 36000, 86400]):
        if (yy, mm, dd, ss) not in {(a, b, c, d) for a in (0, 1) for b in (0, 1, 13) for c in (0, 1) for d in (0, 1)}:
            out.append(("Duration", (yy, mm, dd, ss)))
    for yy, mm, dd, ss in itertools.product([0, 1, -1], [0, 1, 13], [0, 1], [0, 1]):
        if yy < 0 and (mm or dd or ss):
            continue  # an XSD duration has one sign: mixed-sign Durations are not supported values
        out.append(("Duration", (yy, mm, dd, ss)))
    return out


EXPECTED_DT = {"int": XSD.integer, "float": XSD.double, "Decimal": XSD.decimal, "bool": XSD.boolean, "str": None, "bytes": None,
               "date": XSD.date, "time": XSD.time, "datetime": XSD.dateTime, "timedelta": XSD.dayTimeDuration, "Duration": XSD.duration}


def _pyeq(kind, a, b):
    if kind == "float":
        if a != a:
            return b != b
        return isinstance(b, float) and a == b and math.copysign(1, a) == math.copysign(1, b)
    if kind == "Decimal":
        return isinstance(b, Decimal) and a == b
    if kind == "bytes":
        return b == a.decode("utf-8") or b == a
    if kind in ("int", "bool"):
        return type(b) is type(a) and a == b
    return a == b


def py_case(kind, v):
    """Returns list of (sig, detail)."""
    out = []
    if kind == "Duration":
        yy, mm, dd, ss = v
        v = Duration(years=yy, months=mm, days=dd, seconds=ss)
    try:
        lit = Literal(v)
    except Exception as e:  # noqa: BLE001
        return [("py->literal|%s|constructor-raises|%s" % (kind, type(e).__name__), {"value": repr(v), "exc": repr(e)[:200]})]
    cls = _value_class(kind, v)
    exp_dt = EXPECTED_DT[kind]
    if (lit.datatype or None) != (exp_dt or None):
        out.append(("py->literal|%s|wrong-datatype" % kind, {"value": repr(v), "datatype": str(lit.datatype)}))
        return out
    lex = str.__str__(lit)
    if lit.datatype is not None and X.known(lit.datatype) and not X.valid(lit.datatype, lex):
        out.append(("py->literal|%s|lexical-form-not-valid-XSD|%s" % (kind, cls), {"value": repr(v), "lexical": lex}))
    try:
        back = lit.toPython()
        if not _pyeq(kind, v, back):
            out.append(("py->literal|%s|toPython-differs|%s" % (kind, cls), {"value": repr(v), "lexical": lex, "back": repr(back)}))
        re = Literal(lex, datatype=lit.datatype).toPython()
        if not _pyeq(kind, v, re):
            out.append(("py->literal|%s|reparse-of-lexical-differs|%s" % (kind, cls), {"value": repr(v), "lexical": lex, "back": repr(re)}))
    except Exception as e:  # noqa: BLE001
        out.append(("py->literal|%s|toPython-raises|%s" % (kind, cls), {"value": repr(v), "exc": repr(e)[:200]}))
    # a literal made from a value is already normal: normalize() gives the same term, with the same value
    try:
        n = lit.normalize()
        if str.__str__(n) != lex or n.datatype != lit.datatype or n.language != lit.language or n.ill_typed is True or not _pyeq(kind, v, n.toPython()):
            out.append(("py->literal|%s|normalize()-changes-the-literal|%s" % (kind, cls), {"value": repr(v), "lexical": lex, "normalised": str.__str__(n), "datatype": str(n.datatype),
                                                                                           "back": repr(n.toPython())}))
    except Exception as e:  # noqa: BLE001
        out.append(("py->literal|%s|normalize()-raises|%s" % (kind, cls), {"value": repr(v), "exc": repr(e)[:200]}))
    return out


def _value_class(kind, v):
    if kind == "float":
        if v != v:
            return "nan"
        if v in (float("inf"), float("-inf")):
            return "inf"
        if v == 0:
            return "zero"
        return "exponent-form" if "e" in repr(v) else "plain"
    if kind == "Decimal":
        return "exponent" if "E" in str(v) else "plain"
    if kind in ("time", "datetime"):
        return ("aware" if v.tzinfo else "naive") + (",micro" if v.microsecond else "")
    if kind == "timedelta":
        return "negative" if v < timedelta(0) else "positive"
    return "-"


# ---- lexical -> value ----------------------------------------------------------

def lexical_cases(thorough):
    n = 5 if thorough else 4
    out = []
    numeric_strings = [""]
    for k in range(1, n + 1):
        numeric_strings += ["".join(p) for p in itertools.product(NUM_ALPHA, repeat=k)]
    for dt in INT_TYPES + ["decimal", "double", "float"]:
        strs = numeric_strings
        if dt in INT_TYPES and dt not in ("integer", "byte", "unsignedByte", "positiveInteger", "nonPositiveInteger"):
            strs = [s for s in numeric_strings if len(s) <= n - 1]
        for s in strs:
            out.append((dt, s))
        for s in ["INF", "-INF", "+INF", "NaN", "inf", "nan", "Infinity", "-NaN", "1E400", "1e-400", "127", "128", "-128", "-129", "255", "256", "32767", "32768",
                  "-32769", "65535", "65536", "2147483647", "2147483648", "-2147483649", "4294967295", "4294967296", "9223372036854775807",
                  "9223372036854775808", "-9223372036854775809", "18446744073709551615", "18446744073709551616", "0.10", "1.0", "01.50", "1.", "1_0", "١"]:
            out.append((dt, s))
    for s in ["true", "false", "1", "0", "TRUE", "True", "t", "yes", "", " true ", "01", "2", "-0"]:
        out.append(("boolean", s))
    years = ["-0001", "0000", "0001", "2024", "9999", "10000", "02024", "24"]
    months = ["00", "01", "02", "12", "13", "1"]
    days = ["00", "01", "28", "29", "30", "31", "32"]
    hours = ["00", "23", "24", "25"]
    minutes = ["00", "59", "60"]
    seconds = ["00", "59", "60", "59.999999", "59.9999999", "00.0"]
    tzs = ["", "Z", "+00:00", "-00:00", "+14:00", "+14:01", "+5:30", "-05:30"]
    if not thorough:
        years, days, tzs = ["-0001", "0000", "0001", "2024", "10000"], ["00", "01", "29", "30", "31", "32"], ["", "Z", "+14:00", "+14:01", "+5:30", "-05:30"]
    for y, m, d, tz in itertools.product(years, months, days, tzs):
        out.append(("date", "%s-%s-%s%s" % (y, m, d, tz)))
    for h, mi, s, tz in itertools.product(hours, minutes, seconds, tzs):
        out.append(("time", "%s:%s:%s%s" % (h, mi, s, tz)))
    for y, m, d in itertools.product(years, ["01", "02", "13"], ["01", "29", "31", "32"]):
        for h, mi, s, tz in itertools.product(hours, ["00", "60"], ["00", "59.999999", "59.9999999", "60"], ["", "Z", "+14:00", "-05:30"]):
            out.append(("dateTime", "%s-%s-%sT%s:%s:%s%s" % (y, m, d, h, mi, s, tz)))
    for s in ["2024-01-01T00:00:00", "2024-01-01 00:00:00", "2024-01-01T00:00", "2024-01-01", "20240101T000000", " 2024-01-01T00:00:00 ", "2024-01-01T24:00:00", "2024-12-31T24:00:00"]:
        out.append(("dateTime", s))
    for y, tz in itertools.product(years, tzs):
        out.append(("gYear", y + tz))
        for m in months:
            out.append(("gYearMonth", "%s-%s%s" % (y, m, tz)))
    durs = ["P1D", "PT24H", "P1Y", "P12M", "-P1D", "P", "PT", "P1Y2M3DT4H5M6S", "P1Y2M3DT4H5M6.5S", "PT0S", "P0D", "P1M", "PT1M", "P1DT", "1D", "P1S", "P-1D",
            "PT1.S", "P1.5D", "P1Y1D", "PT36H", "P400D", "-PT1S", "P1W", " P1D "]
    for dt in ("duration", "dayTimeDuration", "yearMonthDuration"):
        for s in durs:
            out.append((dt, s))
    # field products: each designator absent / 0 / units / tens / hundreds, seconds also with fractions
    ns = [None, "0", "1", "10", "100"]
    for sign, y, mo, d, h, mi, sec in itertools.product(["", "-"], ns[:4], ns[:4], ns[:4], ns[:4], ns[:4], [None, "0", "1", "10", "20", "10.0", "1.5", "0.10", "100", "59.999999"]):
        if not thorough and sum(x is not None for x in (y, mo, d, h, mi, sec)) > 3:
            continue
        date_part = "".join(v + k for v, k in ((y, "Y"), (mo, "M"), (d, "D")) if v is not None)
        time_part = "".join(v + k for v, k in ((h, "H"), (mi, "M"), (sec, "S")) if v is not None)
        if not date_part and not time_part:
            continue
        lex = sign + "P" + date_part + ("T" + time_part if time_part else "")
        out.append(("duration", lex))
        if y is None and mo is None:
            out.append(("dayTimeDuration", lex))
        if not time_part and d is None:
            out.append(("yearMonthDuration", lex))
    for s in ["", "0A", "0a", "0", "0G", "0A1b", " 0A ", "0A 1B"]:
        out.append(("hexBinary", s))
    for s in ["", "AA==", "AA", "AAA=", "AAAA", "!", "AA= =", "QUJD", "QUI=", "QQ==", "QR==", " QUJD "]:
        out.append(("base64Binary", s))
    for dt in ("string", "normalizedString", "token", "language", "anyURI"):
        for s in ["", "a", " a  b ", "a\tb", "a\nb", "en", "http://ex.org/a b"]:
            out.append((dt, s))
    return out


def _lex_class(dt, lex, ok):
    if lex != lex.strip():
        return "surrounding-whitespace"
    if dt in X.INT_RANGES or dt in ("decimal", "double", "float"):
        if lex in ("INF", "-INF", "+INF", "NaN"):
            return "special:" + lex
        if lex[:1] in "+-":
            return "signed"
        if lex.startswith(".") or lex.endswith("."):
            return "bare-point"
        if "e" in lex.lower():
            return "exponent"
        if len(lex) > 1 and lex.startswith("0") and lex[1:2].isdigit():
            return "leading-zero"
        return "plain"
    if dt in ("date", "dateTime", "gYear", "gYearMonth"):
        y = lex.lstrip("-").split("-")[0]
        parts = []
        if lex.startswith("-"):
            parts.append("negative-year")
        elif y.isdigit() and len(y) > 4:
            parts.append("year>9999")
        elif y == "0000":
            parts.append("year-0000")
        if "T24:" in lex:
            parts.append("24:00:00")
        if "." in lex and len(lex.split(".")[1].rstrip("Z+-:0123456789"[0:0]).split("+")[0].split("-")[0].rstrip("Z")) > 6:
            parts.append("fraction>6")
        if lex.endswith("Z") or lex[-6:-5] in "+-" and ":" in lex[-6:]:
            parts.append("tz")
        return ",".join(parts) or "plain"
    if dt == "time":
        parts = []
        if lex.startswith("24:"):
            parts.append("24:00:00")
        if "." in lex and len(lex.split(".")[1].split("+")[0].split("-")[0].rstrip("Z")) > 6:
            parts.append("fraction>6")
        if lex.endswith("Z") or (len(lex) > 6 and lex[-6] in "+-"):
            parts.append("tz")
        return ",".join(parts) or "plain"
    return "plain"


def lex_case(dt, lex):
    out = []
    dturi = XSD[dt]
    ok = X.valid(dturi, lex)
    try:
        lit = Literal(lex, datatype=dturi)
    except Exception as e:  # noqa: BLE001
        if ok:
            return [("lexical->value|%s|constructor-raises-on-valid-form|%s" % (dt, type(e).__name__), {"lexical": lex, "exc": repr(e)[:200]})]
        return []
    if not ok:
        return []  # only valid forms are constrained (DESIGN 7)
    cls = _lex_class(dt, lex, ok)
    fam = "integer-family" if dt in X.INT_RANGES and dt != "integer" else dt
    want = X.value(dturi, lex)
    if lit.ill_typed is True:
        if want is X.UNREP:
            # valid, but the Python type rdflib maps the datatype to cannot represent the value: one class per reason
            reason = ("year-outside-1..9999" if any(k in cls for k in ("negative-year", "year-0000", "year>9999")) else
                      "24:00:00" if "24:00:00" in cls else "fraction>6" if "fraction>6" in cls else "timezone-on-date" if (dt == "date" and "tz" in cls) else cls)
            out.append(("lexical->value|%s|valid-but-python-unrepresentable-form-flagged-ill-typed|%s" % (fam, reason), {"datatype": dt, "lexical": lex}))
        else:
            out.append(("lexical->value|%s|valid-form-flagged-ill-typed|%s" % (fam, cls), {"datatype": dt, "lexical": lex}))
        return out
    got = lit.value
    if want is not X.UNREP and not X.same_value(want, got):
        out.append(("lexical->value|%s|wrong-value|%s" % (fam, cls), {"datatype": dt, "lexical": lex, "value": repr(got), "expected": repr(want)}))
        return out
    # normalisation: the (possibly replaced) lexical form denotes the same value and is a fixed point
    norm = str.__str__(lit)
    if dt not in X.STRINGY:
        if not X.valid(dturi, norm):
            out.append(("normalisation|%s|normal-form-not-valid-XSD|%s" % (fam, cls), {"datatype": dt, "lexical": lex, "normalised": norm}))
        else:
            w2 = X.value(dturi, norm)
            if want is not X.UNREP and w2 is not X.UNREP and not X.same_value(want, w2):
                out.append(("normalisation|%s|normal-form-denotes-another-value|%s" % (fam, cls), {"datatype": dt, "lexical": lex, "normalised": norm}))
    again = str.__str__(Literal(norm, datatype=dturi))
    if again != norm:
        out.append(("normalisation|%s|not-idempotent|%s" % (fam, cls), {"datatype": dt, "lexical": lex, "normalised": norm, "again": again}))
    # the normalize() method, on the literal as created and on one created with normalize=False
    for how, src in (("created", lit), ("unnormalised", Literal(lex, datatype=dturi, normalize=False))):
        try:
            n1 = src.normalize()
            n2 = n1.normalize()
        except Exception as e:  # noqa: BLE001
            out.append(("normalisation|%s|normalize()-raises|%s" % (fam, type(e).__name__), {"datatype": dt, "lexical": lex, "on": how, "exc": repr(e)[:200]}))
            continue
        f1, f2 = str.__str__(n1), str.__str__(n2)
        if n1.datatype != dturi or n1.ill_typed is True or (dt not in X.STRINGY and not X.valid(dturi, f1)):
            out.append(("normalisation|%s|normalize()-gives-invalid-literal|%s" % (fam, cls), {"datatype": dt, "lexical": lex, "on": how, "normalised": f1, "datatype_after": str(n1.datatype)}))
        elif want is not X.UNREP and not X.same_value(want, n1.value):
            out.append(("normalisation|%s|normalize()-changes-value|%s" % (fam, cls), {"datatype": dt, "lexical": lex, "on": how, "normalised": f1, "value": repr(n1.value)}))
        elif f2 != f1 or n2.datatype != n1.datatype:
            out.append(("normalisation|%s|normalize()-not-idempotent|%s" % (fam, cls), {"datatype": dt, "lexical": lex, "on": how, "normalised": f1, "again": f2}))
    # the same lexical form handed over as bytes is the same literal
    try:
        lb = Literal(lex.encode("utf-8"), datatype=dturi)
        if str.__str__(lb) != norm or lb.ill_typed != lit.ill_typed or not X.same_value(lb.value, lit.value):
            out.append(("lexical->value|%s|bytes-lexical-form-gives-another-literal|%s" % (fam, cls),
                        {"datatype": dt, "lexical": lex, "from_str": [norm, repr(lit.value)], "from_bytes": [str.__str__(lb), repr(lb.value)]}))
    except Exception as e:  # noqa: BLE001
        out.append(("lexical->value|%s|bytes-lexical-form-raises|%s" % (fam, type(e).__name__), {"datatype": dt, "lexical": lex, "exc": repr(e)[:200]}))
    return out


# ---- eq ------------------------------------------------------------------------

def eq_pairs():
    lits = []
    for dt, forms in (("integer", ["0", "1", "01", "-0", "+1", "2"]), ("decimal", ["0", "1", "1.0", "1.50", "1.5", "-0.0"]),
                      ("double", ["0", "1", "1.0E0", "1.5", "NaN", "INF", "-INF", "-0.0"]), ("float", ["1", "1.5", "NaN"]),
                      ("boolean", ["true", "1", "false", "0"]), ("byte", ["1", "01"]), ("long", ["1"]),
                      ("dateTime", ["2024-01-01T00:00:00Z", "2024-01-01T05:30:00+05:30", "2024-01-01T00:00:00", "2024-01-01T00:00:00.000"]),
                      ("date", ["2024-01-01", "2024-01-02"]), ("time", ["00:00:00", "00:00:00.0", "00:00:00Z"]),
                      ("hexBinary", ["0A", "0a"]), ("string", ["a", "b"])):
        for f in forms:
            lits.append((dt, f))
    return [(a, b) for a in lits for b in lits]


def eq_case(a, b):
    la, lb = Literal(a[1], datatype=XSD[a[0]]), Literal(b[1], datatype=XSD[b[0]])
    out = []
    va, vb = la.value, lb.value
    try:
        got = la.eq(lb)
    except TypeError:
        got = None  # "not comparable"
    term_eq = (la == lb)
    nan = any(isinstance(v, float) and v != v for v in (va, vb))
    if term_eq and got is not True and not nan:  # (for NaN the two clauses of the property contradict each other)
        out.append(("eq|term-equal-but-eq-not-true", {"a": a, "b": b, "eq": got}))
    numeric = {"integer", "decimal", "double", "float", "byte", "long"}
    comparable = (a[0] == b[0]) or (a[0] in numeric and b[0] in numeric)
    if comparable and va is not None and vb is not None and not (isinstance(va, float) and va != va) and not (isinstance(vb, float) and vb != vb):
        try:
            pe = (va == vb)
        except TypeError:
            return out
        if a[0] in ("dateTime", "time") and (getattr(va, "tzinfo", None) is None) != (getattr(vb, "tzinfo", None) is None):
            return out  # naive vs aware: Python refuses / XSD indeterminate
        if got is not None and got != pe:
            out.append(("eq|differs-from-python-equality|%s-%s" % (a[0], b[0]), {"a": a, "b": b, "eq": got, "python": pe}))
    return out


def _py_batch(items):
    v = []
    for kind, val in items:
        for sig, det in py_case(kind, val):
            v.append({"sig": sig, "detail": det, "case": {"py": [kind, repr(val)]}})
    return v, len(items)


def _lex_batch(items):
    v = []
    nontriv = 0
    for dt, lex in items:
        if X.valid(XSD[dt], lex):
            nontriv += 1
        for sig, det in lex_case(dt, lex):
            v.append({"sig": sig, "detail": det, "case": {"lex": [dt, lex]}})
    return v, len(items), nontriv


def run(ctx):
    thorough = ctx.tier == "thorough"
    pv = py_values(thorough)
    res = R.pmap(_py_batch, R.shards(pv, ctx.jobs * 4), ctx.jobs)
    for viols, n in res:
        ctx.extend(viols)
        ctx.add("evaluations", n)
    ctx.cov["python_values"] = len(pv)
    lc = lexical_cases(thorough)
    res = R.pmap(_lex_batch, R.shards(lc, ctx.jobs * 8), ctx.jobs)
    for viols, n, nt in res:
        ctx.extend(viols)
        ctx.add("evaluations", n)
        ctx.add("distinct_nontrivial", nt)
    ctx.cov["lexical_cases"] = len(lc)
    for a, b in eq_pairs():
        ctx.add("evaluations", 1)
        for sig, det in eq_case(a, b):
            ctx.violation(sig, {"eq": [list(a), list(b)]}, det)
    ctx.cov["exhaustive"] = True
    ctx.cov["rule"] = ("python->literal: boundary products of int/float/Decimal/bool/str/bytes/date/time/datetime/timedelta/Duration (%d values); lexical->value: "
                       "every string of length <=%d over {0 1 9 + - . e E space} for the 16 numeric datatypes + special tokens and range boundaries, boolean tokens, "
                       "full products of field spellings for date/time/dateTime/gYear/gYearMonth, duration/binary/string tables (%d cases); eq on %d pairs. "
                       "Oracle: XSD 1.1 lexical regexes + range/calendar rules and direct value construction. distinct_nontrivial = XSD-valid lexical forms." % (
                           len(pv), 5 if thorough else 4, len(lc), len(eq_pairs())))
    ctx.sample({"lex": ["dateTime", "2024-02-29T24:00:00+14:00"]})
    ctx.sample({"py": ["float", "1e+22"]})
    ctx.assumptions += ["only XSD-valid lexical forms are constrained; invalid forms that rdflib accepts silently are not violations",
                        "Decimal NaN/Infinity are not generated (xsd:decimal has no such values); dates with a timezone, years outside 1..9999 and fractions "
                        "beyond microseconds have no Python value and are only required not to be flagged ill-typed"]


def replay(ctx, case):
    out = []
    if "lex" in case:
        for sig, det in lex_case(*case["lex"]):
            out.append({"sig": sig, "case": case, "detail": det})
    elif "eq" in case:
        for sig, det in eq_case(tuple(case["eq"][0]), tuple(case["eq"][1])):
            out.append({"sig": sig, "case": case, "detail": det})
    elif "py" in case:
        kind, rep = case["py"]
        for k, v in py_values(True):
            if k == kind and repr(v) == rep:
                for sig, det in py_case(k, v):
                    out.append({"sig": sig, "case": case, "detail": det})
                break
    return out


META = {
    "text": "Exhaustive enumeration of (a) boundary products of every supported Python type through Literal(value) - documented datatype, XSD-valid lexical "
            "form, toPython() and re-parse give back an equal value - and (b) every short string over each numeric datatype's own alphabet, boolean tokens, "
            "and full products of per-field spellings of the date/time types, for all recognised datatypes: every XSD-valid form must not be flagged "
            "ill-typed, must map to the value XSD assigns (independent reference), normalisation must keep the value and be idempotent; eq() is compared "
            "with Python equality on a pair table.",
    "note": "Oracle = own transcription of the XSD 1.1 lexical productions and value maps; strings of <=4 (quick) / <=5 (thorough) characters; only valid forms "
            "are constrained; Python-unrepresentable values only checked for ill_typed; normalisation through the constructor and through normalize(), on literals made from forms and from Python values.",
    "technique": "exhaustive enumeration of boundary values and short lexical strings against an independent XSD lexical/value reference",
}
