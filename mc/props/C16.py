"""C16 - SPARQL results survive their exchange formats.

Exhaustive over small result tables whose cells range over a term alphabet with control characters,
quotes, tabs, newlines, non-BMP characters, falsy literals and unbound cells: JSON and XML round
trip, TSV read of an independent W3C-conformant writer (with spelling alternatives), CSV read back
by the standard library.
"""
from __future__ import annotations

import csv
import io
import itertools

from rdflib import Graph
from rdflib.namespace import XSD
from rdflib.query import Result
from rdflib.term import BNode, Literal, URIRef, Variable

from .. import run as R
from ..canon import tkey

ID = "C16"
LEVEL = "exploration"

SIGMA = ["a", '"', "'", "\\", "\n", "\r", "\t", " ", "é", "\U0001F600", ".", "#", ","]
TWO = ['\\"', '"\n', "\t\t", "a\r", "\r\n", "\\n", " a", "a ", '""', "\\\\", "a,b", "\n\n"]


def cells(thorough=False):
    """Cell descriptors: None (unbound) or [kind, text, datatype, lang]."""
    out = [None,
           ["I", "http://ex.org/a", None, None], ["I", "http://ex.org/b#c?d=e&f", None, None], ["I", "urn:x:y", None, None],
           ["B", "b1", None, None], ["B", "b2", None, None],
           # the same text as a term of another kind in the same table (IRI / blank-node label / typed form as a plain literal)
           ["L", "http://ex.org/a", None, None], ["L", "b1", None, None], ["L", "1", None, None], ["L", "true", None, None], ["L", "http://ex.org/a", None, "en"],
           ["L", "http://ex.org/a", "http://ex.org/dt", None]]
    strings = [""] + SIGMA + TWO
    if thorough:
        strings += ["".join(p) for p in itertools.product(SIGMA[:10], repeat=2) if "".join(p) not in TWO]
    for s in strings:
        out.append(["L", s, None, None])
    for s in ["", "a", '"', "\n", "\t", "é"]:
        out.append(["L", s, None, "en"])
        out.append(["L", s, str(XSD.string), None])
        out.append(["L", s, "http://ex.org/dt", None])
    for lex, dt in [("0", XSD.integer), ("1", XSD.integer), ("-5", XSD.integer), ("false", XSD.boolean), ("true", XSD.boolean),
                    ("0.0", XSD.double), ("1.5E0", XSD.double), ("1.5", XSD.decimal), ("2024-01-01", XSD.date), ("x", XSD.integer)]:
        out.append(["L", lex, str(dt), None])
    out.append(["L", "x", None, "en-US"])
    # characters that some line readers treat as line boundaries
    for s in ["a\u2028b", "\u0085", "a\x0cb", "\x1c", "\x0b"]:
        out.append(["L", s, None, None])
    return out


SUB = [None, ["I", "http://ex.org/a", None, None], ["B", "b1", None, None], ["L", "", None, None], ["L", "0", str(XSD.integer), None],
       ["L", "a\tb", None, None], ["L", '"\n', None, "en"], ["L", "\r", None, None], ["L", "\U0001F600", "http://ex.org/dt", None],
       ["B", "b2", None, None], ["L", "http://ex.org/a", None, None], ["L", "b1", None, None]]


def mk(d):
    if d is None:
        return None
    k, text, dt, lang = d
    if k == "I":
        return URIRef(text)
    if k == "B":
        return BNode(text)
    return Literal(text, datatype=None if dt is None else URIRef(dt), lang=lang)


def build_result(nvars, rows):
    r = Result("SELECT")
    r.vars = [Variable("v%d" % i) for i in range(nvars)]
    bindings = []
    for row in rows:
        b = {}
        for v, d in zip(r.vars, row):
            t = mk(d)
            if t is not None:
                b[v] = t
        bindings.append(b)
    r.bindings = bindings
    return r


def table_keys(res, nvars):
    """Rows as tuples of term keys (None = unbound), with blank nodes renamed by first occurrence."""
    ren = {}
    out = []
    vs = res.vars
    for b in res.bindings:
        row = []
        for v in vs:
            t = b.get(v)
            if t is None:
                row.append(None)
            else:
                k = tkey(t)
                if k[0] == "B":
                    k = ren.setdefault(k, ("B", "#%d" % len(ren)))
                row.append(k)
        out.append(tuple(row))
    return out


def cell_class(d):
    if d is None:
        return "unbound"
    if d[0] != "L":
        return {"I": "iri", "B": "bnode"}[d[0]]
    s = d[1]
    for ch, name in (("\r", "cr"), ("\n", "lf"), ("\t", "tab"), ('"', "dquote"), ("\\", "backslash"), (",", "comma"), ("'", "squote")):
        if ch in s:
            return "literal-" + name
    if s == "" or s in ("0", "false", "0.0"):
        return "literal-falsy"
    if ord(max(s)) > 0xFFFF:
        return "literal-nonbmp"
    if s != s.strip():
        return "literal-edge-space"
    return "literal-" + ("typed" if d[2] else "lang" if d[3] else "plain")


def worst_class(rows):
    order = ["literal-cr", "literal-lf", "literal-tab", "literal-dquote", "literal-backslash", "literal-comma", "literal-squote",
             "literal-falsy", "literal-nonbmp", "literal-edge-space", "unbound", "bnode", "literal-typed", "literal-lang", "literal-plain", "iri"]
    cs = {cell_class(d) for row in rows for d in row}
    for o in order:
        if o in cs:
            return o
    return "-"


# ---- independent TSV writer (W3C SPARQL 1.1 Query Results CSV and TSV Formats, section 5) ----

def tsv_term(t, style):
    if t is None:
        return ""
    if isinstance(t, URIRef):
        return "<%s>" % t
    if isinstance(t, BNode):
        return "_:%s" % t
    s = str.__str__(t)
    if style == "shorthand" and t.datatype in (XSD.integer, XSD.decimal, XSD.double, XSD.boolean):
        import re
        pat = {XSD.integer: r"[+-]?[0-9]+$", XSD.decimal: r"[+-]?[0-9]*\.[0-9]+$",
               XSD.double: r"[+-]?([0-9]+\.[0-9]*|\.[0-9]+|[0-9]+)[eE][+-]?[0-9]+$", XSD.boolean: r"(true|false)$"}[t.datatype]
        if re.match(pat, s):
            return s
    q = "'" if style == "squote" else '"'
    esc = []
    for ch in s:
        if ch == "\\":
            esc.append("\\\\")
        elif ch == q:
            esc.append("\\" + q)
        elif ch == "\n":
            esc.append("\\n")
        elif ch == "\r":
            esc.append("\\r")
        elif ch == "\t":
            esc.append("\\t")
        elif style == "uescape" and ord(ch) > 0x7E:
            esc.append("\\u%04X" % ord(ch) if ord(ch) <= 0xFFFF else "\\U%08X" % ord(ch))
        else:
            esc.append(ch)
    body = q + "".join(esc) + q
    if t.language:
        return body + "@" + t.language
    if t.datatype is not None:
        return body + "^^<%s>" % t.datatype
    return body


def tsv_doc(nvars, rows, style):
    lines = ["\t".join("?v%d" % i for i in range(nvars))]
    for row in rows:
        lines.append("\t".join(tsv_term(mk(d), style) for d in row))
    return "\n".join(lines) + "\n"


TSV_STYLES = ["plain", "shorthand", "squote"]  # \\uXXXX escapes are not clearly licensed by the TSV note: not demanded


def _first_diff(got, exp, rows):
    if len(got) != len(exp):
        return "row-count-differs|%s" % worst_class(rows)
    for i, (g, e) in enumerate(zip(got, exp)):
        for j, (a, b) in enumerate(zip(g, e)):
            if a != b:
                return "cell-differs|%s" % cell_class(rows[i][j])
    return "cell-differs|?"


_ENGINE = Graph(bind_namespaces="none")


def check_table(nvars, rows):
    """Returns list of (sig, detail)."""
    v = []
    wc = worst_class(rows)
    res = build_result(nvars, rows)
    exp = table_keys(res, nvars)
    exp_vars = [str(x) for x in res.vars]
    xml_ok = not any(d is not None and d[0] == "L" and any(ord(c) < 0x20 and c not in "\t\n\r" for c in d[1]) for r in rows for d in r)
    for fmt in ("json", "xml"):
        if fmt == "xml" and not xml_ok:
            continue  # XML 1.0 cannot carry the character
        try:
            data = build_result(nvars, rows).serialize(format=fmt)
            back = Result.parse(io.BytesIO(data), format=fmt)
            if [str(x) for x in back.vars] != exp_vars:
                v.append(("%s|vars-differ" % fmt, {"got": [str(x) for x in back.vars]}))
                continue
            got = table_keys(back, nvars)
            if got != exp:
                v.append(("%s|%s" % (fmt, _first_diff(got, exp, rows)), {"got": got, "expected": exp}))
        except Exception as e:  # noqa: BLE001
            v.append(("%s|raises|%s|%s" % (fmt, type(e).__name__, wc), {"exc": repr(e)[:300]}))
    # the same table as the result object a query returns (evaluated lazily), serialised more than once and after it has been iterated
    ncells = sum(len(r) for r in rows)
    if rows and ncells <= 2 and not any(d is not None and d[0] == "B" for r in rows for d in r):
        try:
            q = "SELECT %s WHERE { VALUES (%s) { %s } }" % (" ".join("?v%d" % i for i in range(nvars)), " ".join("?v%d" % i for i in range(nvars)),
                                                            " ".join("(%s)" % " ".join("UNDEF" if d is None else mk(d).n3() for d in r) for r in rows))
            res_q = _ENGINE.query(q)
            first = res_q.serialize(format="json")
            second = res_q.serialize(format="xml" if xml_ok else "json")
            list(res_q)
            third = res_q.serialize(format="json")
            for label, fmt, data in (("first", "json", first), ("second", "xml" if xml_ok else "json", second), ("after-iteration", "json", third)):
                back = Result.parse(io.BytesIO(data), format=fmt)
                got = table_keys(back, nvars)
                if [str(x) for x in back.vars] != exp_vars or got != exp:
                    v.append(("engine-result|%s-serialisation(%s)|%s" % (label, fmt, _first_diff(got, exp, rows) if len(got) == len(exp) else "row-count-differs|" + wc),
                              {"query": q, "got": got, "expected": exp}))
                    break
            # (iterating a Result deliberately skips rows that bind nothing - "don't add a result row in case of empty binding" - and the
            #  property speaks of serialising and parsing back: the number of iterated rows is not compared)
        except Exception as e:  # noqa: BLE001
            v.append(("engine-result|raises|%s|%s" % (type(e).__name__, wc), {"exc": repr(e)[:300]}))
    # TSV: independent writer -> rdflib reader; rows binding nothing are not compared
    for style in TSV_STYLES:
        try:
            doc = tsv_doc(nvars, rows, style)
            back = Result.parse(io.BytesIO(doc.encode("utf-8")), format="tsv")
            if [str(x) for x in back.vars] != exp_vars:
                v.append(("tsv|vars-differ", {"doc": doc}))
                continue
            got = [r for r in table_keys(back, nvars)]
            e2 = [r for r in exp if any(c is not None for c in r)]
            g2 = [r for r in got if any(c is not None for c in r)]
            if g2 != e2:
                rows2 = [r for r in rows if any(c is not None for c in r)]
                v.append(("tsv-reader|%s|%s" % (style, _first_diff(g2, e2, rows2)), {"doc": doc, "got": g2, "expected": e2}))
        except Exception as e:  # noqa: BLE001
            v.append(("tsv-reader|%s|raises|%s|%s" % (style, type(e).__name__, wc), {"exc": repr(e)[:300]}))
    # CSV: rdflib writer -> stdlib csv reader
    try:
        data = build_result(nvars, rows).serialize(format="csv")
        rd = list(csv.reader(io.StringIO(data.decode("utf-8"), newline="")))
        if rd[0] != ["v%d" % i for i in range(nvars)]:
            v.append(("csv|header-differs", {"got": rd[0]}))
        body = rd[1:]
        expc = []
        for row in rows:
            r = []
            for d in row:
                t = mk(d)
                r.append("" if t is None else ("_:%s" % t if isinstance(t, BNode) else str.__str__(t)))
            expc.append(r)
        if nvars == 1:
            # a row whose only cell is empty is an empty line for the csv module
            body = [r if r else [""] for r in body]
        if body != expc:
            v.append(("csv|%s-differs|%s" % ("row-count" if len(body) != len(expc) else "cell", wc), {"got": body, "expected": expc}))
    except Exception as e:  # noqa: BLE001
        v.append(("csv|raises|%s|%s" % (type(e).__name__, wc), {"exc": repr(e)[:300]}))
    # CSV: rdflib writer -> rdflib reader: the row sequence and the string value of every bound term survive (CSV does not carry term kinds;
    # an empty string and an unbound cell are both an empty field)
    try:
        data = build_result(nvars, rows).serialize(format="csv")
        back = Result.parse(io.BytesIO(data), format="csv")
        got = [[("" if b.get(var) is None else str.__str__(b.get(var))) for var in back.vars] for b in back.bindings]
        expc = [[("" if mk(d) is None else ("_:%s" % mk(d) if isinstance(mk(d), BNode) else str.__str__(mk(d)))) for d in row] for row in rows]
        if [str(x) for x in back.vars] != exp_vars:
            v.append(("csv-reader|vars-differ", {"got": [str(x) for x in back.vars]}))
        else:
            g2 = [r for r in got if any(r)]
            e2 = [r for r in expc if any(r)]
            if g2 != e2:
                v.append(("csv-reader|%s-differs|%s" % ("row-count" if len(g2) != len(e2) else "cell", wc), {"got": g2, "expected": e2, "csv": data.decode("utf-8")[:300]}))
    except Exception as e:  # noqa: BLE001
        v.append(("csv-reader|raises|%s|%s" % (type(e).__name__, wc), {"exc": repr(e)[:300]}))
    return v


def check_ask(val):
    v = []
    for fmt in ("json", "xml"):
        try:
            r = Result("ASK")
            r.askAnswer = val
            back = Result.parse(io.BytesIO(r.serialize(format=fmt)), format=fmt)
            if back.type != "ASK" or back.askAnswer is not val:
                v.append(("%s|ask-differs" % fmt, {"value": val, "got": back.askAnswer}))
        except Exception as e:  # noqa: BLE001
            v.append(("%s|ask-raises" % fmt, {"exc": repr(e)[:300]}))
    return v


def _batch(tables):
    viols = []
    nontriv = 0
    for nvars, rows in tables:
        wc = worst_class(rows)
        if wc not in ("iri", "literal-plain", "-"):
            nontriv += 1
        for sig, det in check_table(nvars, rows):
            viols.append({"sig": sig, "case": {"table": [nvars, rows]}, "detail": det})
    return viols, len(tables), nontriv


def tables(thorough):
    K = cells(thorough)
    out = []
    for c in K:
        out.append((1, [[c]]))
    K2 = K if thorough else K[:: 1]
    for a in K2:
        for b in K2:
            out.append((1, [[a], [b]]))
            out.append((2, [[a, b]]))
    for a, b, c, d in itertools.product(SUB, repeat=4):
        out.append((2, [[a, b], [c, d]]))
    out.append((1, []))
    out.append((2, []))
    out.append((3, [[K[1], None, None], [None, None, None], [None, None, K[4]]]))
    return out


def run(ctx):
    thorough = ctx.tier == "thorough"
    ts = tables(thorough)
    res = R.pmap(_batch, R.shards(ts, ctx.jobs * 8), ctx.jobs)
    for viols, n, nt in res:
        ctx.extend(viols)
        ctx.add("evaluations", n)
        ctx.add("distinct_nontrivial", nt)
    for val in (True, False):
        for sig, det in check_ask(val):
            ctx.violation(sig, {"ask": val}, det)
    ctx.cov["cell_alphabet"] = len(cells(thorough))
    ctx.cov["exhaustive"] = True
    ctx.cov["rule"] = ("Tables: 1x1 over the cell alphabet K, 1 var x 2 rows (K^2), 2 vars x 1 row (K^2), 2x2 over a 12-cell sub-alphabet (12^4), empty "
                       "tables, all-unbound row, trailing unbound column, both ASK values; each through JSON, XML (round trip), TSV (4 spellings of an "
                       "independent writer -> rdflib reader) and CSV (rdflib writer -> stdlib csv, and rdflib writer -> rdflib reader compared by string values); every table of <=2 cells also as the lazily evaluated result of a VALUES query, serialised twice and once more after iteration. Non-trivial: a cell needs escaping, is falsy, "
                       "non-BMP, a blank node or unbound.")
    ctx.sample({"table": [2, [[["L", "a\tb", None, None], None], [["B", "b1", None, None], ["L", "", None, "en"]]]]})
    ctx.assumptions += ["for TSV only rows binding at least one variable are compared (an all-unbound row is an empty line)",
                        "blank nodes are compared up to a consistent renaming within one table"]


def replay(ctx, case):
    out = []
    if "table" in case:
        nvars, rows = case["table"]
        for sig, det in check_table(nvars, rows):
            out.append({"sig": sig, "case": case, "detail": det})
    else:
        for sig, det in check_ask(case["ask"]):
            out.append({"sig": sig, "case": case, "detail": det})
    return out


META = {
    "text": "Exhaustive enumeration of small SELECT result tables (all 1- and 2-cell tables over a ~70-term cell alphabet incl. unbound, all 2x2 tables "
            "over a 12-cell sub-alphabet, degenerate shapes) and both ASK results: SPARQL JSON and XML must round-trip variables, row sequence and "
            "every cell; rdflib's TSV reader must recover the terms of four spellings produced by an independent W3C-conformant TSV writer; the CSV "
            "output read by the standard csv module must keep the row sequence and each bound cell's string value.",
    "note": "Cell alphabet limited to strings of <=2 characters over 13 characters (quotes, backslash, TAB, LF, CR, space, comma, non-ASCII, non-BMP); "
            "tables of at most 2x2 (one 3x3 shape); blank nodes compared up to renaming.",
    "technique": "exhaustive enumeration of small result tables through each exchange format against term-key equality",
}
