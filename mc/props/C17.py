"""C17 - prefix bindings stay a consistent two-way map and compact IRIs expand back.

BFS over histories of bind(prefix, namespace, override, replace) interleaved with every compaction
call (qname, curie, compute_qname, compute_qname_strict, n3, normalizeUri), Turtle parse/serialize
and reset(), on both in-memory stores; the fingerprint contains the manager's cache and tries and
the store's two maps. Invariant in every state: namespaces() is a bijection that agrees with both
lookup directions; after every compaction the prefix used is bound now and expands to the IRI.
"""
from __future__ import annotations

from rdflib import Graph
from rdflib.plugins.stores.memory import Memory, SimpleMemory
from rdflib.term import URIRef

from .. import explore, seams
from ..canon import canon, tkey

ID = "C17"
LEVEL = "model_checking"

PREFIXES = ["", "a", "b", "ns1"]
NS = {"N0": "", "N1": "http://ex.org/", "N2": "http://ex.org/x/", "N3": "http://ex.org/x#", "N4": "http://other.org/"}
IRIS = {"u1": NS["N1"] + "y", "u2": NS["N2"] + "y", "u3": NS["N3"] + "y", "u4": NS["N4"] + "y", "u5": NS["N1"] + "1y"}
COMPACT = ["qname", "curie", "cq_nogen", "cq_strict", "n3", "normalizeUri"]
DOCS = {
    "d1": "@prefix a: <http://ex.org/x/> .\n@prefix : <http://other.org/> .\na:s :p a:o .\n",
    "d2": "@prefix b: <http://ex.org/> .\n@prefix a: <http://ex.org/x#> .\nb:s b:p a:o .\n",
    # RDF/XML binds with override=False
    "d3": '<rdf:RDF xmlns:rdf="http://www.w3.org/1999/02/22-rdf-syntax-ns#" xmlns:a="http://ex.org/" xmlns="http://ex.org/x#">'
          '<rdf:Description rdf:about="http://ex.org/s"><a:p rdf:resource="http://ex.org/x#o"/></rdf:Description></rdf:RDF>',
}
# the other parsers that bind the document's prefixes (each wraps or reaches the target graph in its own way)
DOCS["d4"] = "@prefix a: <http://ex.org/x/> .\n@prefix ns1: <http://other.org/> .\n{ a:s ns1:p a:o . }\n"
DOCS["d5"] = "@prefix b: <http://ex.org/x#> .\n@prefix : <http://ex.org/> .\nb:s :p b:o .\n"
DOCS["d6"] = '{"@context": {"a": "http://other.org/", "b": "http://ex.org/x/"}, "@id": "a:s", "b:p": {"@id": "a:o"}}'
DOC_FORMAT = {"d1": "turtle", "d2": "turtle", "d3": "xml", "d4": "trig", "d5": "n3", "d6": "json-ld"}


class State:
    pass


class Spec:
    def __init__(self, store, initial, bind_only=False):
        self.store = store
        self.initial = initial
        self.bind_only = bind_only
        self.name = "nsmanager(store=%s,initial=%s%s)" % (store, initial, ",bind-only" if bind_only else "")

    def initials(self):
        return [["init", self.store, self.initial]]

    def build(self, init):
        seams.reset_bnode_counter()
        S = State()
        S.store = Memory() if init[1] == "Memory" else SimpleMemory()
        S.g = Graph(S.store, identifier=URIRef("http://ex.org/graph"), bind_namespaces=init[2])
        S.nm = S.g.namespace_manager
        S.last = "init"
        S.bound_changed = False
        return S

    def ops(self, S):
        out = []
        for p in PREFIXES:
            for n in NS:
                for ov in (True, False):
                    for rp in (False, True):
                        out.append(["bind", p, n, ov, rp])
        for c in (["qname", "curie"] if self.bind_only else COMPACT):
            for u in (["u1", "u3"] if self.bind_only else IRIS):
                out.append([c, u])
        if not self.bind_only:
            out.append(["parse", "d1"])
            out.append(["parse", "d2"])
            out.append(["parse", "d3"])
            if self.store == "Memory":  # (the TriG, N3 and JSON-LD parsers ask for a context-aware store)
                out.append(["parse", "d4"])
                out.append(["parse", "d5"])
                out.append(["parse", "d6"])
            out.append(["serialize"])
            out.append(["reset"])
        return out

    def _compaction_result(self, S, kind, u, r):
        """Return (prefix, expanded IRI) for a compaction result, or None if not compacted."""
        nm = S.nm
        if kind == "qname":
            if ":" in r and S.store.namespace(r.split(":", 1)[0]) is not None and not r.startswith("http"):
                p, local = r.split(":", 1)
            else:
                p, local = "", r
        elif kind == "curie":
            p, local = r.split(":", 1)
        elif kind in ("cq_nogen", "cq_strict"):
            p, ns, local = r
            if S.store.namespace(p) is None or str(S.store.namespace(p)) != str(ns):
                return (p, None, "returned namespace %r is not what prefix %r is bound to (%r)" % (str(ns), p, S.store.namespace(p)))
        elif kind in ("n3", "normalizeUri"):
            if r.startswith("<"):
                if r != "<%s>" % u:
                    return ("", None, "angle form differs")
                return None
            p, local = r.split(":", 1)
        ns = S.store.namespace(p)
        if ns is None:
            return (p, None, "prefix %r is not bound" % p)
        return (p, str(ns) + local, None)

    def apply(self, S, op):
        k = op[0]
        S.last = k
        nm = S.nm
        try:
            if k == "bind":
                _, p, n, ov, rp = op
                before = sorted((a, str(b)) for a, b in S.store.namespaces())
                nm.bind(p, URIRef(NS[n]), override=ov, replace=rp)
                S.bound_changed = before != sorted((a, str(b)) for a, b in S.store.namespaces())
                S.last = "bind(override=%s,replace=%s)" % (ov, rp)
                return []
            if k in COMPACT:
                u = IRIS[op[1]]
                try:
                    if k == "qname":
                        r = nm.qname(u)
                    elif k == "curie":
                        r = nm.curie(u)
                    elif k == "cq_nogen":
                        r = nm.compute_qname(u, generate=False)
                    elif k == "cq_strict":
                        r = nm.compute_qname_strict(u)
                    elif k == "n3":
                        r = URIRef(u).n3(nm)
                    else:
                        r = nm.normalizeUri(URIRef(u))
                except KeyError:
                    if k == "cq_nogen":
                        return []
                    raise
                res = self._compaction_result(S, k, u, r)
                if res is not None:
                    p, expanded, why = res
                    if why is not None or expanded != u:
                        return [("%s|compaction-does-not-expand-back" % k,
                                 {"iri": u, "result": r, "why": why, "expands_to": expanded,
                                  "namespaces": sorted((a, str(b)) for a, b in S.store.namespaces())})]
                return []
            if k == "parse":
                S.g.parse(data=DOCS[op[1]], format=DOC_FORMAT[op[1]])
                return []
            if k == "serialize":
                S.g.add((URIRef(IRIS["u1"]), URIRef(IRIS["u3"]), URIRef(IRIS["u2"])))
                S.g.add((URIRef(IRIS["u4"]), URIRef(IRIS["u1"]), URIRef(IRIS["u5"])))
                out = S.g.serialize(format="turtle")
                back = Graph(bind_namespaces="none").parse(data=out, format="turtle")
                a = {tuple(tkey(x) for x in t) for t in S.g}
                b = {tuple(tkey(x) for x in t) for t in back}
                if a != b:
                    return [("serialize|turtle-output-does-not-read-back", {"output": out, "missing": sorted(a - b), "extra": sorted(b - a)})]
                return []
            if k == "reset":
                nm.reset()
                return []
        except Exception as e:  # noqa: BLE001
            return [("%s|raises|%s" % (S.last, type(e).__name__), {"op": op, "exc": repr(e)})]
        return []

    def check(self, S):
        v = []
        ns = [(p, str(n)) for p, n in S.nm.namespaces()]
        ps = [p for p, _ in ns]
        nn = [n for _, n in ns]

        def bad(clause, **kw):
            kw["namespaces"] = sorted(ns)
            v.append(("%s|%s" % (S.last, clause), kw))

        if len(set(ps)) != len(ps):
            bad("prefix-listed-twice")
        elif len(set(nn)) != len(nn):
            bad("namespace-listed-under-two-prefixes")
        else:
            for p, n in ns:
                got_n = S.store.namespace(p)
                got_p = S.store.prefix(URIRef(n))
                if got_n is None or str(got_n) != n:
                    bad("namespace(prefix)-disagrees-with-listing", prefix=p, listed=n, got=None if got_n is None else str(got_n))
                    break
                if got_p != p:
                    bad("prefix(namespace)-disagrees-with-listing", namespace=n, listed=p, got=got_p)
                    break
            else:
                for n in NS.values():
                    got_p = S.store.prefix(URIRef(n))
                    if got_p is not None and (got_p, n) not in ns:
                        bad("prefix(namespace)-answers-unlisted-binding", namespace=n, got=got_p)
                        break
                for p in PREFIXES + ["default1", "ns2"]:
                    got_n = S.store.namespace(p)
                    if got_n is not None and (p, str(got_n)) not in ns:
                        bad("namespace(prefix)-answers-unlisted-binding", prefix=p, got=str(got_n))
                        break
        return v

    def key(self, S):
        d = dict(vars(S.nm))
        d.pop("graph", None)
        return (canon(d), tuple(sorted((p, str(n)) for p, n in S.store.namespaces())),
                tuple(sorted((n, S.store.prefix(URIRef(n))) for n in NS.values())), len(S.g))

    def model_key(self, S):
        return tuple(sorted((p, str(n)) for p, n in S.store.namespaces()))

    def nontrivial(self, before, op, after):
        if op[0] == "bind":
            occupied_p = any(p == op[1] for p, _ in before)
            occupied_n = any(n == NS[op[2]] for _, n in before)
            return before != after or occupied_p or occupied_n
        return len(before) > 0


def run(ctx):
    thorough = ctx.tier == "thorough"
    depth = 4 if thorough else 3  # (a level is never cut short by the time budget, and a fifth level over this alphabet of ~130 operations takes hours)
    for store in ("Memory", "SimpleMemory"):
        for initial in ("none", "core"):
            if not thorough and (store, initial) == ("SimpleMemory", "core"):
                continue
            spec = Spec(store, initial)
            explore.bfs(spec, ctx, max_depth=depth if (store == "Memory" and initial == "none") else min(depth, 4 if thorough else 3), batch=8,
                        time_cap=(600 if thorough else None))
    spec = Spec("Memory", "none", bind_only=True)
    explore.bfs(spec, ctx, max_depth=6 if thorough else 4, batch=16, time_cap=(600 if thorough else None))
    ctx.cov["exhaustive"] = True
    ctx.cov["rule"] = ("BFS over histories of bind (4 prefixes x 4 nested/overlapping namespaces x override x replace), 6 compaction calls x 5 IRIs, "
                       "Turtle parse (2 docs) / serialize, reset(); key = manager cache + tries + both store maps; depth %d (full alphabet), "
                       "deeper on the bind + qname/curie sub-alphabet. Non-trivial: a bind that hits an occupied prefix/namespace or changes "
                       "the map, or a compaction with a non-empty map." % depth)
    ctx.assumptions += ["which prefix the policy picks is not constrained, only that it is bound now and expands back",
                        "depth-bounded (the cache/trie state space over this alphabet is finite but large); closure is reported when reached"]


def replay(ctx, case):
    h = case["history"]
    spec = Spec(h[0][1], h[0][2])
    viols = explore.run_history(spec, h)
    return [{"sig": s, "case": case, "detail": d} for s, d in viols]


META = {
    "text": "Explicit-state model checking of NamespaceManager + store prefix maps: BFS over all histories (to the stated depth) of bind() "
            "with every override/replace combination on repeated prefixes and nested namespaces, interleaved with every compaction API, "
            "Turtle parse/serialize and reset(), fingerprinting the qname cache and tries. The bijection invariant is evaluated in every "
            "state and every compaction result must use a currently bound prefix and expand back to the IRI asked about.",
    "note": "Small scope: 4 prefixes incl. the empty one, 5 namespaces (nested, '/', '#', the empty one), 5 IRIs, parses of Turtle / RDF-XML / TriG / N3 / JSON-LD documents that bind prefixes; depth 3 (quick) / 4 (thorough) on the full "
            "alphabet, 4 / 5 on the bind+qname sub-alphabet; which prefix the policy picks is not constrained.",
    "technique": "explicit-state BFS over bind/compaction histories of the real NamespaceManager with an invariant oracle",
}
