"""C03 - serialise then parse gives back the same RDF graph, in every syntax.

Downward-closed families: (A) every term of a term table (all strings over a 12-char alphabet up to a
length in each literal kind, numeric/boolean/date lexical table, IRI table) in three embeddings;
(B) every graph with <= k triples over {A, b1, b2, b3, rdf:nil} x {P, rdf:first, rdf:rest} x one literal
modulo blank-node renaming (trees, DAGs, cycles, shared/unreferenced bnodes, well-formed and malformed
lists); (C) cross of representative terms x topologies. Oracle: brute-force blank-node isomorphism
on term keys; termination by watchdog.
"""
from __future__ import annotations

import itertools
import json

import rdflib
from rdflib import Graph
from rdflib.namespace import RDF, XSD

from .. import run as R
from .. import seams
from ..canon import canon_rows, iso, tkey
from ..rt import (B, EX, FIRST, I, L, NIL, REST, SIGMA, char_class, graph_from, graph_rows, hext_norm, mk, rows_of,
                  strings_upto)

ID = "C03"
LEVEL = "exploration"

FORMATS = ["nt", "turtle", "longturtle", "n3", "xml", "pretty-xml", "json-ld", "hext"]
OPTIONS = ["plain", "base+prefixes", "filebase+prefixes"]
BASES = {"base+prefixes": EX, "filebase+prefixes": EX + "dir/doc"}  # a namespace-like base and a file-like base (its last segment is not part of relative references)
PARSE_FMT = {"longturtle": "turtle", "pretty-xml": "xml"}

NUMERIC = {
    "integer": ["1", "01", "+1", "-0", "0", "abc", ""],
    "decimal": ["1.0", "1", "01.10", ".5", "-0.0", "x"],
    "double": ["1.0E0", "1e0", "1.0", "NaN", "INF", "-INF", "-0.0", "1.5e300", "123456789.0", "1e-7"],
    "float": ["1.0", "NaN", "INF", "1e0"],
    "boolean": ["true", "false", "1", "0", "maybe"],
    "dateTime": ["2024-01-01T00:00:00", "2024-01-01T00:00:00Z", "2024-01-01T05:30:00+05:30", "x"],
    "date": ["2024-01-01", "2024-01-01Z"],
    "time": ["00:00:00", "00:00:00Z"],
    "duration": ["P1D", "PT24H", "P1Y"],
    "gYear": ["2024"],
    "hexBinary": ["0A", "0a"],
    "base64Binary": ["AA=="],
    "anyURI": ["http://ex.org/a"],
    "long": ["1"], "byte": ["1", "128"], "nonNegativeInteger": ["0", "-1"],
}

XML_SIGMA = ["<", ">", "&", "]", "\r", "\n", "a", ";"]
IRIS = [EX + "q?a=1&b=2#p", EX + "it's#p", EX + "a%b", EX + "100%", EX + "docs", EX + "dir/docs", EX + "dir/doc/below", EX + "dir/x", EX + "dir/doc#frag", EX + "dir/doc", EX + "dir/", EX + "dir/sub/y", EX + "dir/doc?q=1", EX + "a", EX + "b#c", EX + "1digit", EX + "end.", EX + "a(b)", EX + "a%20b", EX + "ns/", EX, "http://other.org/x/y",
        str(RDF.type), str(RDF.nil), str(RDF.first), str(XSD.string), "urn:x:y", "http://ex.org/é", EX + "a_b-c", EX + "a:b", "http://ex.org"]


def term_table(n, thorough):
    out = []
    for s in strings_upto(n):
        out.append(L(s))
        out.append(L(s, lang="en"))
        out.append(L(s, dt=str(XSD.string)))
        out.append(L(s, dt=EX + "dt"))
    if not thorough:
        for s3 in ['"""', "'''", '\\"\n', "\n\\\"", 'a"\n', '"\\', "\r\n\t", "a\\b", " a ", '""\n', '\n""', "\\\\\\", "a\n\"", '"\n"']:
            out.append(L(s3))
            out.append(L(s3, lang="en"))
    for dt, forms in NUMERIC.items():
        for f in forms:
            out.append(L(f, dt=str(XSD[dt])))
    # strings over the characters that matter to the XML-based syntaxes (markup, CDATA end, entity start, line ends)
    for s in strings_upto(3, XML_SIGMA):
        if s:
            out.append(L(s))
    for s in strings_upto(2, XML_SIGMA):
        if s:
            out.append(L(s, lang="en"))
            out.append(L(s, dt=EX + "dt"))
    # datatype IRIs that need escaping or cannot be abbreviated
    for dt in (EX + "dt?a=1&b=2", EX + "dt#x", "urn:dt:x", EX + "dt'q", EX + "1dt", EX + "dir/dt", EX):
        out.append(L("x", dt=dt))
    out.append(L("<a/>", dt=str(RDF.XMLLiteral)))
    out.append(L("x", lang="en-US"))
    out.append(L("x", lang="EN"))
    for u in IRIS:
        out.append(["I", u, None, None])
    return out


def embeddings(t):
    A, P, Q = I("a"), I("p"), I("q")
    out = [("obj-of-iri", [(A, P, t)]),
           ("obj-of-bnode", [(A, P, B("b1")), (B("b1"), Q, t)]),
           ("list-member", [(A, P, B("b1")), (B("b1"), FIRST, t), (B("b1"), REST, NIL)]),
           # not the head member: list walks treat the head and the later cells differently
           ("list-later-member", [(A, P, B("b1")), (B("b1"), FIRST, A), (B("b1"), REST, B("b2")), (B("b2"), FIRST, t), (B("b2"), REST, B("b3")),
                                  (B("b3"), FIRST, t), (B("b3"), REST, NIL)])]
    out.append(("type-object", [(A, ["I", str(RDF.type), None, None], t), (A, P, I("b"))]))
    # the term is the first of two values of one property (writers that collect the values of a property meet it before a second one)
    out.append(("first-of-two-values", [(A, P, t), (A, P, L("zz"))]))
    # the term is the value of a property that N3 writes as a keyword ("=", "=>", "a"), on a blank node written inline
    for kw, iri in (("sameAs", "http://www.w3.org/2002/07/owl#sameAs"), ("implies", "http://www.w3.org/2000/10/swap/log#implies")):
        if t[0] == "I":
            out.append(("bnode-" + kw, [(A, P, B("b1")), (B("b1"), ["I", iri, None, None], t)]))
            out.append(("bnode-%s+other" % kw, [(A, P, B("b1")), (B("b1"), ["I", iri, None, None], t), (B("b1"), ["I", "http://a.example/p", None, None], A)]))
    if t[0] == "I":
        out.append(("subject", [(t, P, A)]))
        out.append(("predicate", [(A, t, I("b"))]))
    return out


def xml_expressible(triples):
    """RDF/XML cannot express a predicate that does not split into namespace + NCName."""
    from rdflib.namespace import split_uri, is_ncname
    for s, p, o in triples:
        try:
            ns, ln = split_uri(p[1])
        except Exception:
            return False
        if not ns or not ln:
            return False
    return True


def xml_expressible_strict(triples):
    import re
    for s, p, o in triples:
        m = re.match(r"^(.*[/#:])([A-Za-z_][A-Za-z0-9_.\-]*)$", p[1])
        if not m:
            return False
    return True


def term_class(t):
    if t[0] == "I":
        return "iri"
    if t[2] and t[2].startswith(str(XSD)) and t[2] != str(XSD.string):
        return "typed-" + t[2][len(str(XSD)):]
    kind = "lang" if t[3] else "xsd-string" if t[2] == str(XSD.string) else "custom-dt" if t[2] else "plain"
    return "%s-literal/%s" % (kind, char_class(t[1]))


def xsd_string_norm(rows):
    return {tuple((x[0], x[1], None, x[3]) if (x[0] == "L" and len(x) > 3 and x[2] == str(XSD.string)) else x for x in r) for r in rows}


def roundtrip(triples, fmt, option, horizon=5.0):
    """Returns (kind, detail) on failure, None on success."""
    g = graph_from(triples, bind_namespaces=("rdflib" if option != "plain" else "none"))
    if option != "plain":
        g.bind("ex", EX)
    orig = graph_rows(g)
    kw = {}
    if option == "compact":
        skw = {"auto_compact": True}  # JSON-LD only: a context is generated and values are written in their shortest form
    else:
        if option != "plain" and fmt not in ("nt", "hext"):
            kw["base"] = BASES[option]
        skw = kw
    try:
        with seams.watchdog(horizon):
            out = g.serialize(format=fmt, **skw)
    except seams.Timeout:
        return ("serialize-does-not-terminate", {"horizon_s": horizon})
    except Exception as e:  # noqa: BLE001
        return ("serialize-raises|" + type(e).__name__, {"exc": repr(e)[:300]})
    if graph_rows(g) != orig:
        return ("serialize-mutates-graph", {})
    try:
        with seams.watchdog(horizon):
            # the base handed to the serializer is the document's base: hand it to the parser as well
            # (Turtle/RDF-XML embed it; JSON-LD output relies on the document location)
            back = Graph(bind_namespaces="none").parse(data=out, format=PARSE_FMT.get(fmt, fmt), **({"publicID": kw["base"]} if kw else {}))
    except seams.Timeout:
        return ("parse-does-not-terminate", {"output": out[:500]})
    except Exception as e:  # noqa: BLE001
        return ("parse-of-own-output-raises|" + type(e).__name__, {"exc": repr(e)[:300], "output": out[:600]})
    got = graph_rows(back)
    a, b = (hext_norm(orig), hext_norm(got)) if fmt == "hext" else (orig, got)
    if option == "compact":
        # a compacted document writes "x" and "x"^^xsd:string alike as a JSON string: RDF 1.1 knows one literal there (simple literal = xsd:string)
        a, b = xsd_string_norm(a), xsd_string_norm(b)
    if not iso(a, b):
        lost = len(a) - len(b)
        kind = "triples-lost" if len(b) < len(a) else "triples-added" if len(b) > len(a) else "term-changed"
        return ("graph-differs|" + kind, {"original": sorted(a, key=repr), "parsed": sorted(b, key=repr), "output": out[:600]})
    return None


def _terms_batch(arg):
    terms, formats = arg
    viols = []
    n = 0
    nontriv = 0
    for t in terms:
        tc = term_class(t)
        for emb, triples in embeddings(t):
            for fmt in formats:
                if fmt in ("xml", "pretty-xml") and not xml_expressible_strict(triples):
                    continue
                for opt in OPTIONS + (["compact"] if fmt == "json-ld" and emb in ("obj-of-iri", "first-of-two-values", "obj-of-bnode", "list-member") else []):
                    n += 1
                    if "plain-literal/plain" not in tc:
                        nontriv += 1
                    v = roundtrip(triples, fmt, opt)
                    if v:
                        viols.append({"sig": "%s|%s|%s" % (fmt, v[0], tc), "detail": v[1],
                                      "case": {"triples": [list(map(list, tr)) for tr in triples], "format": fmt, "option": opt, "embedding": emb}})
    return viols, n, nontriv


# ---- topologies ------------------------------------------------------------

def topo_universe():
    subs = [I("a"), B("b1"), B("b2"), B("b3")]
    preds = [I("p"), FIRST, REST, ["I", str(RDF.type), None, None]]
    objs = [I("a"), B("b1"), B("b2"), B("b3"), NIL, L("x")]
    return [(s, p, o) for s in subs for p in preds for o in objs]


def topo_class(triples):
    bn = {x[1] for t in triples for x in (t[0], t[2]) if x[0] == "B"}
    has_list = any(t[1] in (FIRST, REST) for t in triples)
    cls = "bnodes=%d" % len(bn)
    if has_list:
        # well-formed: every cell has exactly one first and one rest and nothing else, chain ends in nil
        cells = {tuple(t[0]) for t in triples if t[1] in (FIRST, REST)}
        ok = True
        for c in cells:
            props = [t for t in triples if tuple(t[0]) == c]
            if len(props) != 2 or sorted(t[1][1] for t in props) != sorted([FIRST[1], REST[1]]):
                ok = False
        # acyclic rest chain
        rest = {tuple(t[0]): tuple(t[2]) for t in triples if t[1] == REST}
        for c in cells:
            seen = set()
            x = c
            while x in rest:
                if x in seen:
                    ok = False
                    break
                seen.add(x)
                x = rest[x]
            else:
                if x != tuple(NIL):
                    ok = False
        cls += ",list=" + ("wellformed" if ok else "malformed")
    # blank-node cycle through any predicate
    succ = {}
    for s, p, o in triples:
        if s[0] == "B" and o[0] == "B":
            succ.setdefault(s[1], set()).add(o[1])
    cyc = False
    for start in succ:
        seen, stack = set(), list(succ[start])
        while stack:
            x = stack.pop()
            if x == start:
                cyc = True
            if x in seen:
                continue
            seen.add(x)
            stack.extend(succ.get(x, ()))
    if cyc:
        cls += ",bnode-cycle"
    return cls


def topologies(k):
    """All graphs with <= k triples of the universe, one representative per blank-node renaming class."""
    U = topo_universe()
    seen = set()
    out = []
    for r in range(1, k + 1):
        for sub in itertools.combinations(U, r):
            c = canon_rows(rows_of(sub))
            if c in seen:
                continue
            seen.add(c)
            out.append(list(sub))
    return out


def list_perturbations(maxdev):
    """Well-formed lists of 2 and 3 cells (members: IRI, literal, blank node with a property, nested list) plus every set of <= maxdev extra triples
    from a menu that makes the list shared, decorated, forked or broken: the shapes list abbreviation must recognise - or must leave alone."""
    A, Bn, P, Q = I("a"), I("b"), I("p"), I("q")
    TYPE = ["I", str(RDF.type), None, None]
    LIST = ["I", str(RDF.List), None, None]
    INT = str(XSD.integer)
    z0, z1, z2 = B("a0"), B("z1"), B("a2")  # labels chosen so that a later cell sorts before the head and before the referring subject

    def menu_for(c1, c2, x):
        return [(NIL, FIRST, L("x")), (NIL, REST, NIL), (c2, Q, c2), (A, Q, c2), (Bn, P, c2), (A, Q, c1), (c2, P, L("extra")), (c2, TYPE, LIST), (c1, TYPE, LIST), (c2, FIRST, L("2", dt=INT)), (c2, REST, c1),
                (c2, REST, A), (c1, FIRST, L("0", dt=INT)), (c2, Q, c2), (NIL, P, A), (c1, P, c1), (x, Q, c2)]

    c1, c2, c3, x = B("c1"), B("c2"), B("c3"), B("x")
    variants = [
        ([(z1, I("self"), z1), (z1, P, z2), (z2, FIRST, L("1", dt=INT)), (z2, REST, z0), (z0, FIRST, L("2", dt=INT)), (z0, REST, NIL)], menu_for(c1, c2, x)),
        ([(A, P, c1), (c1, FIRST, L("1", dt=INT)), (c1, REST, c2), (c2, FIRST, L("0", dt=INT)), (c2, REST, NIL)], menu_for(c1, c2, x)),
        ([(A, P, c1), (c1, FIRST, A), (c1, REST, c2), (c2, FIRST, L("")), (c2, REST, c3), (c3, FIRST, Bn), (c3, REST, NIL)], menu_for(c1, c2, x)),
    ]
    # two shapes under every order of the blank-node labels (writers walk subjects in label order): a list with a described blank-node member,
    # and a rootless cycle that runs through a list (the subject that refers to the list is itself the last member)
    for labels in itertools.permutations(["b1", "b2", "b3"]):
        c1, c2, x = (B(l) for l in labels)
        variants.append(([(A, P, c1), (c1, FIRST, x), (c1, REST, c2), (c2, FIRST, L("y", lang="en")), (c2, REST, NIL), (x, Q, L("z"))], menu_for(c1, c2, x)))
        variants.append(([(x, P, c1), (c1, FIRST, L("a")), (c1, REST, c2), (c2, FIRST, x), (c2, REST, NIL)], menu_for(c1, c2, x)))
    out = []
    seen = set()
    for base, menu in variants:
        for r in range(0, maxdev + 1):
            for extra in itertools.combinations(menu, r):
                triples = list(base) + [t for t in extra if t not in base]
                c = tuple(sorted(repr(tr) for tr in triples))  # labels matter here: the same shape under another label order is another case
                if c not in seen:
                    seen.add(c)
                    out.append(triples)
    return out


def _topo_batch(arg):
    graphs, formats = arg
    viols = []
    n = 0
    nontriv = 0
    for triples in graphs:
        tc = topo_class(triples)
        typed_cell = any(t[1][1] == str(RDF.type) and t[2][1] == str(RDF.List) and any(u[0] == t[0] and u[1] in (FIRST, REST) for u in triples) for t in triples)
        for fmt in formats:
            if fmt in ("xml", "pretty-xml") and not xml_expressible_strict(triples):
                continue
            if fmt == "json-ld" and typed_cell:
                continue  # the JSON-LD "Serialize RDF as JSON-LD" algorithm folds rdf:type rdf:List of a list cell into @list by specification
            for opt in ("plain", "base+prefixes"):
                n += 1
                if tc != "bnodes=0":
                    nontriv += 1
                v = roundtrip(triples, fmt, opt)
                if v:
                    viols.append({"sig": "%s|%s|%s" % (fmt, v[0], tc), "detail": v[1],
                                  "case": {"triples": [list(map(list, tr)) for tr in triples], "format": fmt, "option": opt, "embedding": "topology"}})
    return viols, n, nontriv


# ---- one graph written several times while its prefix bindings change ------------------------

HIST_N1, HIST_N2 = EX + "v1#", EX + "v2#"
HIST_OPS = ["bind v=N1", "bind v=N2 replace", "bind v=N2", "bind w=N1", "bind v=N1 replace", "add N1:name", "add N2:name", "add N1:other", "write"]


def run_bind_history(fmt, ops, horizon=5.0):
    """A graph whose namespace manager is rebound between two writes (every writer asks the manager for compact names, and the manager remembers
    what it answered): every write must still round-trip. Returns (kind, detail) for the first write that does not."""
    from rdflib import URIRef
    g = Graph(bind_namespaces="none")
    g.add((URIRef(EX + "a"), URIRef(HIST_N1 + "name"), URIRef(EX + "b")))
    for i, op in enumerate(ops):
        if op.startswith("bind"):
            pfx, ns = op.split()[1].split("=")
            g.bind(pfx, HIST_N1 if ns == "N1" else HIST_N2, replace=op.endswith("replace"))
        elif op.startswith("add"):
            ns, local = op.split()[1].split(":")
            g.add((URIRef(EX + "a"), URIRef((HIST_N1 if ns == "N1" else HIST_N2) + local), URIRef(EX + "b")))
        else:
            orig = graph_rows(g)
            try:
                with seams.watchdog(horizon):
                    out = g.serialize(format=fmt)
                    back = Graph(bind_namespaces="none").parse(data=out, format=PARSE_FMT.get(fmt, fmt))
            except Exception as e:  # noqa: BLE001
                return ("write-%d-of-history-raises|%s" % (ops[: i + 1].count("write"), type(e).__name__), {"exc": repr(e)[:300]})
            if not iso(orig, graph_rows(back)):
                return ("write-after-rebinding-differs|%s" % ("first-write" if ops[:i].count("write") == 0 else "later-write"),
                        {"original": sorted(orig, key=repr), "parsed": sorted(graph_rows(back), key=repr), "output": out[:600]})
    return None


def _hist_batch(items):
    viols = []
    for fmt, ops in items:
        v = run_bind_history(fmt, ops)
        if v:
            viols.append({"sig": "%s|%s" % (fmt, v[0]), "detail": v[1], "case": {"bind_history": list(ops), "format": fmt}})
    return viols, len(items)


def run(ctx):
    thorough = ctx.tier == "thorough"
    hist = [(fmt, ops + ("write",)) for fmt in FORMATS if fmt not in ("nt", "hext")
            for k in range(0, (5 if thorough else 4) + 1) for ops in itertools.product(HIST_OPS, repeat=k)]
    for viols, n in R.pmap(_hist_batch, R.shards(hist, ctx.jobs * 8), ctx.jobs):
        ctx.extend(viols)
        ctx.add("evaluations", n)
        ctx.add("distinct_nontrivial", n)
    ctx.cov["bind_histories"] = len(hist)
    terms = term_table(3 if thorough else 2, thorough)
    work = [(sh, FORMATS) for sh in R.shards(terms, ctx.jobs * 8)]
    res = R.pmap(_terms_batch, work, ctx.jobs)
    for viols, n, nt in res:
        ctx.extend(viols)
        ctx.add("evaluations", n)
        ctx.add("distinct_nontrivial", nt)
    ctx.cov["terms"] = len(terms)
    topo = topologies(3 if thorough else 2)
    # (thorough: k=3 everywhere; quick: k=2 complete plus the 3-triple graphs that contain a list triple)
    if not thorough:
        U = topo_universe()
        seen = set()
        extra = []
        listy = [t for t in U if t[1] in (FIRST, REST)]
        for sub in itertools.combinations(listy, 3):
            subs = {tuple(t[0]) for t in sub}
            if len(subs) > 2:
                continue
            c = canon_rows(rows_of(sub))
            if c not in seen:
                seen.add(c)
                extra.append(list(sub))
        topo += extra
    lp = list_perturbations(2 if thorough else 1)
    topo += lp
    ctx.cov["list_perturbations"] = len(lp)
    res = R.pmap(_topo_batch, [(sh, FORMATS) for sh in R.shards(topo, ctx.jobs * 8)], ctx.jobs)
    for viols, n, nt in res:
        ctx.extend(viols)
        ctx.add("evaluations", n)
        ctx.add("distinct_nontrivial", nt)
    ctx.cov["topologies"] = len(topo)
    ctx.cov["exhaustive"] = True
    ctx.cov["rule"] = ("(A) every term of the table (all strings of length <=%d over a 12-char alphabet x {plain, @en, xsd:string, custom datatype}, numeric/"
                       "boolean/date lexical table, IRI table) embedded as object of an IRI, of a blank node, as head and as later (repeated) list member (IRIs also as subject / predicate) x 8 "
                       "formats x {plain, namespace-like base + prefixes, file-like base + prefixes}; (B) every graph with <=%d triples over {A,b1,b2,b3,nil} x {P,first,rest,rdf:type} x one literal, one per blank-"
                       "node renaming class, and three well-formed lists with every set of <=1 (quick) / 2 (thorough) extra triples from a 14-entry menu (shared, typed, forked, broken cells). Non-trivial: term needs escaping/shorthand/splitting, or graph has a blank node." % (3 if thorough else 2, 3 if thorough else 2))
    ctx.sample({"triples": [[I("a"), I("p"), L('"\n')]], "format": "turtle", "option": "plain"})
    ctx.assumptions += ["RDF/XML is only given predicates that split into namespace + NCName; literal subjects and blank-node predicates are not generated",
                        "HexTuples compared modulo simple literal = xsd:string; NORMALIZE_LITERALS at its default", "5 s horizon for the termination clause"]


def replay(ctx, case):
    if "bind_history" in case:
        v = run_bind_history(case["format"], case["bind_history"], horizon=30.0)
        return [{"sig": "%s|%s" % (case["format"], v[0]), "case": case, "detail": v[1]}] if v else []
    triples = [tuple(tuple(x) if isinstance(x, list) else x for x in tr) for tr in case["triples"]]
    triples = [tuple(list(x) for x in tr) for tr in triples]
    v = roundtrip(triples, case["format"], case["option"], horizon=30.0)
    if not v:
        return []
    emb = case.get("embedding")
    if emb == "topology":
        tc = topo_class(triples)
    else:
        # the varied term is the object of the last triple, or the subject / predicate of the only one
        tc = term_class(triples[0][0] if emb == "subject" else triples[0][1] if emb == "predicate" else triples[1][2] if emb == "list-member" else triples[3][2] if emb == "list-later-member" else triples[0][2] if emb in ("type-object", "first-of-two-values") else triples[1][2] if (emb or "").startswith("bnode-") else triples[-1][2])
    return [{"sig": "%s|%s|%s" % (case["format"], v[0], tc), "case": case, "detail": v[1]}]


META = {
    "text": "Exhaustive enumeration of downward-closed graph families through all eight serializers and their parsers: every literal over a 12-character "
            "alphabet up to a length in each literal kind, a lexical table of every common datatype (canonical, non-canonical, invalid forms), an IRI "
            "table (hash/slash namespaces, digits, dots, brackets, percent, rdf: names), each embedded three ways, with and without base/prefixes; and "
            "every small blank-node topology incl. cycles, shared and unreferenced nodes, well-formed, malformed and cyclic rdf:Lists. The parsed graph "
            "must be isomorphic to the original on independent term keys; serialisation must terminate.",
    "note": "Small scope (strings <=2/3 chars, graphs <=2/3 triples); RDF/XML expressibility filter on predicates; HexTuples modulo simple literal = "
            "xsd:string; 5 s horizon for termination. JSON-LD also compacted (modulo simple literal = xsd:string); every history of <=4 (5) bind / add / write steps before a write.",
    "technique": "exhaustive enumeration of downward-closed term and topology families through serialize+parse with a brute-force isomorphism oracle",
}
