"""C12 - parsing only adds, and blank nodes of separate documents never merge.

Histories of parse calls: every sequence of <= 2 (quick) / 3 (thorough) documents drawn from an alphabet
of hand-written documents in nine syntaxes that all use the blank-node label `b` (once, twice in one
document, across two named graphs of one document), plus documents whose label is the identifier of
a blank node already present in the target, parsed into a Graph or a Dataset with empty or non-empty
content. After every parse: old quads untouched; the added quads are isomorphic to the document's
own graph under a bijection onto blank nodes that were not in the target before.
"""
from __future__ import annotations

import itertools
import json

from rdflib import ConjunctiveGraph, Dataset, Graph
from rdflib.term import BNode, URIRef

from .. import run as R
from .. import seams
from ..canon import iso, tkey
from ..rt import dataset_rows, graph_rows

ID = "C12"
LEVEL = "model_checking"

EX = "http://ex.org/"
P, Q, O, G1, G2 = EX + "p", EX + "q", EX + "o", EX + "g1", EX + "g2"
TRIX_NS = "http://www.w3.org/2004/03/trix/trix-1/"
RDF_NS = "http://www.w3.org/1999/02/22-rdf-syntax-ns#"


def docs(label="b"):
    """name -> (format, text, expected quads with blank node ('B','b'), quad_only)."""
    b = ("B", "b")
    i = lambda u: ("I", u)  # noqa: E731
    one = [(b, i(P), i(O), None)]
    two = [(b, i(P), i(O), None), (b, i(Q), i(O), None)]
    across = [(b, i(P), i(O), i(G1)), (b, i(Q), i(O), i(G2))]
    bb = [(b, i(P), ("B", "c"), None), (("B", "c"), i(Q), b, None)]
    L = label
    d = {}
    d["nt-one"] = ("nt", "_:%s <%s> <%s> .\n" % (L, P, O), one, False)
    d["nt-two"] = ("nt", "_:%s <%s> <%s> .\n_:%s <%s> <%s> .\n" % (L, P, O, L, Q, O), two, False)
    d["nq-across"] = ("nquads", "_:%s <%s> <%s> <%s> .\n_:%s <%s> <%s> <%s> .\n" % (L, P, O, G1, L, Q, O, G2), across, True)
    # a quad document may name rdflib's own default-graph identifier like any other IRI
    DEF = "urn:x-rdflib:default"
    d["nq-default-label"] = ("nquads", "_:%s <%s> <%s> <%s> .\n_:%s <%s> <%s> <%s> .\n_:%s <%s> <%sa> .\n" % (L, P, O, DEF, L, Q, O, G1, L, Q, EX),
                             [(b, i(P), i(O), None), (b, i(Q), i(O), i(G1)), (b, i(Q), i(EX + "a"), None)], True)
    d["trig-default-label"] = ("trig", "@prefix : <%s> .\n<%s> { _:%s :p :o . }\n:g1 { _:%s :q :o . }\n" % (EX, DEF, L, L), [(b, i(P), i(O), None), (b, i(Q), i(O), i(G1))], True)
    d["nq-one"] = ("nquads", "_:%s <%s> <%s> .\n" % (L, P, O), one, True)
    d["ttl-one"] = ("turtle", "@prefix : <%s> .\n_:%s :p :o .\n" % (EX, L), one, False)
    d["ttl-two"] = ("turtle", "@prefix : <%s> .\n_:%s :p :o .\n_:%s :q :o .\n" % (EX, L, L), two, False)
    d["ttl-cycle"] = ("turtle", "@prefix : <%s> .\n_:%s :p _:c .\n_:c :q _:%s .\n" % (EX, L, L), bb, False)
    d["n3-one"] = ("n3", "@prefix : <%s> .\n_:%s :p :o .\n" % (EX, L), one, False)
    d["trig-across"] = ("trig", "@prefix : <%s> .\n:g1 { _:%s :p :o . }\n:g2 { _:%s :q :o . }\n" % (EX, L, L), across, True)
    d["trig-default"] = ("trig", "@prefix : <%s> .\n{ _:%s :p :o . }\n" % (EX, L), one, True)
    d["xml-one"] = ("xml", '<rdf:RDF xmlns:rdf="%s" xmlns:e="%s"><rdf:Description rdf:nodeID="%s"><e:p rdf:resource="%s"/></rdf:Description></rdf:RDF>'
                    % (RDF_NS, EX, L, O), one, False)
    d["xml-two"] = ("xml", '<rdf:RDF xmlns:rdf="%s" xmlns:e="%s"><rdf:Description rdf:nodeID="%s"><e:p rdf:resource="%s"/></rdf:Description>'
                    '<rdf:Description rdf:nodeID="%s"><e:q rdf:resource="%s"/></rdf:Description></rdf:RDF>' % (RDF_NS, EX, L, O, L, O), two, False)
    fwd = [(i(EX + "a"), i(P), b, None), (b, i(Q), i(O), None)]
    # the label is first met as an OBJECT (forward reference) and described later
    d["xml-forward"] = ("xml", '<rdf:RDF xmlns:rdf="%s" xmlns:e="%s"><rdf:Description rdf:about="%sa"><e:p rdf:nodeID="%s"/></rdf:Description>'
                        '<rdf:Description rdf:nodeID="%s"><e:q rdf:resource="%s"/></rdf:Description></rdf:RDF>' % (RDF_NS, EX, EX, L, L, O), fwd, False)
    d["xml-object-only"] = ("xml", '<rdf:RDF xmlns:rdf="%s" xmlns:e="%s"><rdf:Description rdf:about="%sa"><e:p rdf:nodeID="%s"/><e:q rdf:nodeID="%s"/></rdf:Description></rdf:RDF>'
                            % (RDF_NS, EX, EX, L, L), [(i(EX + "a"), i(P), b, None), (i(EX + "a"), i(Q), b, None)], False)
    d["ttl-forward"] = ("turtle", "@prefix : <%s> .\n:a :p _:%s .\n_:%s :q :o .\n" % (EX, L, L), fwd, False)
    d["nt-forward"] = ("nt", "<%sa> <%s> _:%s .\n_:%s <%s> <%s> .\n" % (EX, P, L, L, Q, O), fwd, False)
    d["jsonld-forward"] = ("json-ld", json.dumps([{"@id": EX + "a", P: {"@id": "_:" + L}}, {"@id": "_:" + L, Q: {"@id": O}}]), fwd, False)
    d["trix-forward"] = ("trix", '<TriX xmlns="%s"><graph><triple><uri>%sa</uri><uri>%s</uri><id>%s</id></triple><triple><id>%s</id><uri>%s</uri><uri>%s</uri></triple></graph></TriX>'
                         % (TRIX_NS, EX, P, L, L, Q, O), fwd, True)
    trip = "<triple><id>%s</id><uri>%s</uri><uri>%s</uri></triple>"
    d["trix-one"] = ("trix", '<TriX xmlns="%s"><graph>%s</graph></TriX>' % (TRIX_NS, trip % (L, P, O)), one, True)
    d["trix-across"] = ("trix", '<TriX xmlns="%s"><graph><uri>%s</uri>%s</graph><graph><uri>%s</uri>%s</graph></TriX>'
                        % (TRIX_NS, G1, trip % (L, P, O), G2, trip % (L, Q, O)), across, True)
    d["jsonld-one"] = ("json-ld", json.dumps({"@id": "_:" + L, P: {"@id": O}}), one, False)
    d["jsonld-two"] = ("json-ld", json.dumps([{"@id": "_:" + L, P: {"@id": O}}, {"@id": "_:" + L, Q: {"@id": O}}]), two, False)
    d["jsonld-across"] = ("json-ld", json.dumps([{"@id": G1, "@graph": [{"@id": "_:" + L, P: {"@id": O}}]},
                                                 {"@id": G2, "@graph": [{"@id": "_:" + L, Q: {"@id": O}}]}]), across, True)
    # the document handed over as an already decoded object (the SAME object at every parse of a history): with and without a context
    d["jsonld-object"] = ("json-ld-object", json.dumps({"@id": "_:" + L, P: {"@id": O}}), one, False)
    d["jsonld-object-context"] = ("json-ld-object", json.dumps({"@context": {"pp": {"@id": P, "@type": "@id"}, "e": EX}, "@id": "_:" + L, "pp": "e:o"}), one, False)
    d["jsonld-object-graph"] = ("json-ld-object", json.dumps({"@context": {"e": EX}, "@graph": [{"@id": "_:" + L, "e:p": {"@id": "e:o"}}, {"@id": "_:" + L, "e:q": {"@id": "e:o"}}]}), two, False)
    # anonymous blank nodes (no label at all): [ ] in the Turtle family, a node element without rdf:nodeID, a node object without @id
    d["ttl-anon"] = ("turtle", "@prefix : <%s> .\n[ :p :o ] .\n" % EX, one, False)
    d["ttl-anon-two"] = ("turtle", "@prefix : <%s> .\n[ :p :o ; :q :o ] .\n" % EX, two, False)
    d["n3-anon"] = ("n3", "@prefix : <%s> .\n[ :p :o ] .\n" % EX, one, False)
    d["n3-anon-two"] = ("n3", "@prefix : <%s> .\n[ :p :o ; :q :o ] .\n" % EX, two, False)
    d["trig-anon"] = ("trig", "@prefix : <%s> .\n{ [ :p :o ] . }\n" % EX, one, True)
    d["xml-anon"] = ("xml", '<rdf:RDF xmlns:rdf="%s" xmlns:e="%s"><rdf:Description><e:p rdf:resource="%s"/></rdf:Description></rdf:RDF>' % (RDF_NS, EX, O), one, False)
    d["jsonld-anon"] = ("json-ld", json.dumps({P: {"@id": O}}), one, False)
    d["hext-one"] = ("hext", json.dumps(["_:" + L, P, O, "globalId", "", ""]) + "\n", one, True)
    d["hext-across"] = ("hext", json.dumps(["_:" + L, P, O, "globalId", "", G1]) + "\n" + json.dumps(["_:" + L, Q, O, "globalId", "", G2]) + "\n", across, True)
    return d


DOC_NAMES = sorted(docs())
PRESTATES = ["empty", "has-b"]
TARGETS = ["graph", "dataset", "named", "named-bare", "cg"]  # named-bare: as "named", but the Dataset's default graph is empty; cg: a ConjunctiveGraph, observed as the union of its graphs
H = EX + "h"  # "named": the parse call is made on the named graph H of a Dataset that has other content; the whole Dataset is observed


def make_target(target, prestate):
    if target in ("graph", "cg"):
        t = Graph(bind_namespaces="none") if target == "graph" else ConjunctiveGraph()
        if prestate == "has-b":
            t.add((BNode("b"), URIRef(P), URIRef(EX + "a")))
    elif target == "named-bare":
        t = Dataset()
        if prestate == "has-b":
            t.add((BNode("b"), URIRef(P), URIRef(EX + "a"), URIRef(G1)))
        t.add((URIRef(EX + "a"), URIRef(P), URIRef(EX + "a"), URIRef(H)))
    else:
        t = Dataset()
        if prestate == "has-b":
            t.add((BNode("b"), URIRef(P), URIRef(EX + "a")))
            t.add((BNode("b"), URIRef(P), URIRef(EX + "a"), URIRef(G1)))
        if target == "named":
            t.add((URIRef(EX + "a"), URIRef(P), URIRef(EX + "a")))
            t.add((URIRef(EX + "a"), URIRef(P), URIRef(EX + "a"), URIRef(H)))
    return t


def rows(t):
    if isinstance(t, Dataset):
        return dataset_rows(t)
    return {r + (None,) for r in graph_rows(t)}


def bnodes_of(rs):
    return {x for r in rs for x in r if isinstance(x, tuple) and x and x[0] == "B"}


def expected_rows(exp, target):
    out = set()
    for s, p, o, g in exp:
        out.add((tuple(s), tuple(p), tuple(o), ("I", H) if target.startswith("named") else None if (g is None or target in ("graph", "cg")) else tuple(g)))
    return out


def run_history(target, prestate, names, horizon=10.0):
    """Execute one history; returns (violation|None, steps)."""
    seams.reset_bnode_counter()
    t = make_target(target, prestate)
    steps = 0
    objects = {}
    for idx, name in enumerate(names):
        before = rows(t)
        label = "b"
        dyn = False
        if name.endswith("@existing"):
            # label = identifier of a blank node already in the target (generated ids included)
            existing = sorted(k[1] for k in bnodes_of(before))
            if not existing:
                continue
            label = existing[-1]
            name = name[: -len("@existing")]
            dyn = True
        fmt, text, exp, quad_only = docs(label)[name]
        if quad_only and target == "graph":
            continue
        steps += 1
        cls = "%s|%s" % ("json-ld" if fmt == "json-ld-object" else fmt, "label-collides-with-existing-node-or-earlier-document" if (dyn or idx > 0 or ("B", "b") in bnodes_of(before))
                         else "first-document")
        try:
            with seams.watchdog(horizon):
                if fmt == "json-ld-object":
                    data = objects.setdefault((name, label), json.loads(text))
                    (t.graph(URIRef(H)) if target.startswith("named") else t).parse(data=data, format="json-ld")
                else:
                    (t.graph(URIRef(H)) if target.startswith("named") else t).parse(data=text, format=fmt)
        except Exception as e:  # noqa: BLE001
            return (("%s|parse-raises|%s" % (cls, type(e).__name__), {"exc": repr(e)[:300], "document": text}), steps)
        after = rows(t)
        if not before <= after:
            return (("%s|existing-quads-removed-or-altered" % cls, {"lost": sorted(before - after, key=repr), "document": text}), steps)
        new = after - before
        want = expected_rows(exp, target)
        if quad_only and target.startswith("named"):
            # which graphs the statements of a quad document go to when the sink is a named graph is not specified; that every statement
            # of the document arrives in some graph is: the added quads, without their graph names, are the document's triples
            new, want = {r[:3] + (None,) for r in new}, {r[:3] + (None,) for r in want}
        ok = iso(new, want)
        if not ok and fmt == "trix" and target not in ("graph", "cg"):
            # a TriX <graph> without a name may be read as a fresh blank-node-named graph instead of the default graph
            ok = iso(new, {r[:3] + (("B", "unnamed-graph") if r[3] is None else r[3],) for r in want})
        if not ok:
            old_b = bnodes_of(before)
            merged = bool(bnodes_of(new) & old_b) or len(new) < len(want)
            return (("%s|%s" % (cls, "document-blank-node-merged-with-existing-node" if merged else "added-quads-differ-from-document"),
                     {"added": sorted(new, key=repr), "document_graph": sorted(want, key=repr), "document": text}), steps)
        if bnodes_of(new) & bnodes_of(before):
            return (("%s|document-blank-node-merged-with-existing-node" % cls,
                     {"shared": sorted(bnodes_of(new) & bnodes_of(before)), "document": text}), steps)
    return (None, steps)


def _batch(hists):
    viols = []
    steps = 0
    nontriv = 0
    for target, prestate, names in hists:
        v, n = run_history(target, prestate, names)
        steps += n
        if len(names) > 1 or prestate != "empty":
            nontriv += 1
        if v:
            viols.append({"sig": v[0], "detail": v[1], "case": {"history": [target, prestate, list(names)]}})
    return viols, steps, nontriv


def fresh_pair_check(name):
    fmt, text, exp, quad_only = docs()[name]
    a, b = Dataset(), Dataset()
    if fmt == "json-ld-object":
        text, fmt = json.loads(text), "json-ld"  # one object, parsed twice
    a.parse(data=text, format=fmt)
    b.parse(data=text, format=fmt)
    if not iso(rows(a), rows(b)):
        return ("%s|two-fresh-parses-not-isomorphic" % fmt, {"document": text})
    return None


def run(ctx):
    thorough = ctx.tier == "thorough"
    alphabet = DOC_NAMES + [n + "@existing" for n in DOC_NAMES if n.endswith("-one") or n in ("ttl-two",)]
    hists = []
    maxlen = 3
    for target in TARGETS:
        for prestate in PRESTATES:
            for k in range(1, maxlen + 1):
                if k == 3 and not thorough:
                    # quick: depth 3 on the sub-alphabet of one document per syntax (+ dynamic labels); thorough: depth 3 on the whole alphabet
                    sub = [n for n in alphabet if n.split("@")[0].endswith("-one")]
                    seqs = itertools.product(sub, repeat=3)
                else:
                    seqs = itertools.product(alphabet, repeat=k)
                for names in seqs:
                    hists.append((target, prestate, names))
    res = R.pmap(_batch, R.shards(hists, ctx.jobs * 8), ctx.jobs)
    steps = 0
    for viols, n, nt in res:
        ctx.extend(viols)
        steps += n
        ctx.add("nontrivial_histories", nt)
    for name in DOC_NAMES:
        v = fresh_pair_check(name)
        if v:
            ctx.violation(v[0], {"fresh_pair": name}, v[1])
    ctx.cov["states"] = len(hists)
    ctx.cov["transitions"] = steps
    ctx.cov["traces_validated_against_impl"] = len(hists)
    ctx.cov["documents"] = len(alphabet)
    ctx.cov["max_depth"] = maxlen
    ctx.cov["exhaustive"] = True
    ctx.cov["rule"] = ("every sequence of <=%d parse calls over %d documents (9 syntaxes; label b once / twice / across two named graphs; label = identifier of a "
                       "blank node already in the target) into Graph and Dataset, empty or holding _:b; states = histories executed on the real parsers, "
                       "transitions = parse calls. Non-trivial: history of >= 2 documents or non-empty pre-state." % (maxlen, len(alphabet)))
    ctx.sample({"history": ["dataset", "has-b", ["trix-one", "hext-one@existing"]]})
    ctx.assumptions += ["the document's own graph is given by hand next to each document (independent of rdflib's parsers)",
                        "quad-only documents are not parsed into a plain Graph; parsed into a named graph of a Dataset, only the triples (not the graph names) of the added quads are compared"]


def replay(ctx, case):
    if "history" in case:
        target, prestate, names = case["history"]
        v, _ = run_history(target, prestate, names, horizon=60.0)
        return [{"sig": v[0], "case": case, "detail": v[1]}] if v else []
    v = fresh_pair_check(case["fresh_pair"])
    return [{"sig": v[0], "case": case, "detail": v[1]}] if v else []


META = {
    "text": "Exhaustive exploration of parse histories on the real parsers: all sequences (to the stated depth) of hand-written documents in nine "
            "syntaxes that reuse one blank-node label within a document, across named graphs of a document, across documents and equal to "
            "identifiers already present in the target (incl. rdflib-generated ones), into Graph and Dataset targets with and without content; "
            "every step checks monotonicity and that the added quads are the document's graph on fresh blank nodes.",
    "note": "Document alphabet of ~35 hand-written documents (+ dynamic-label variants): label once / twice / across graphs / forward reference / anonymous nodes, in nine syntaxes; "
            "five targets (Graph, Dataset, a named graph of a Dataset whose default graph holds triples / is empty, ConjunctiveGraph); quad documents into a named graph: every statement arrives in some graph; every history of <= 2 parse calls, and of 3 on one document per syntax (quick) / on the whole alphabet (thorough).",
    "technique": "exhaustive enumeration of parse-call histories over a document alphabet with an isomorphism oracle on the added quads",
}
