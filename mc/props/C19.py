"""C19 - an RDF Collection behaves like the Python list it represents.

Explicit-state BFS over histories of Collection operations on a real Graph, compared step
by step with a Python list; full read sweep and chain well-formedness in every state.
Plus: every broken / cyclic chain shape on <= 3 cells x every read must terminate.
"""
from __future__ import annotations

import itertools

from rdflib import Graph
from rdflib.collection import Collection
from rdflib.namespace import RDF
from rdflib.term import BNode, URIRef

from .. import explore, seams
from .. import run as R
from ..canon import canon, tkey
from ..vocab import T, TERMS, is_falsy

ID = "C19"
LEVEL = "model_checking"

MEMBERS = ["L0", "Lempty", "Lfalse", "A", "L1"]
ABSENT = "Z"
DECOYS = [("A", "P", "HEAD"), ("A", "P", "B")]


def _len_class(n):
    return "len0" if n == 0 else "len1" if n == 1 else "len>=2"


def _idx_class(i, n):
    if i >= n:
        return "oor"
    if i == 0:
        return "first"
    if i == n - 1:
        return "last"
    return "middle"


def _mem_class(x):
    return "falsy" if is_falsy(x) else "truthy"


class State:
    pass


def _rename(x, ren):
    if isinstance(x, tuple):
        if x in ren:
            return ren[x]
        return tuple(_rename(y, ren) for y in x)
    return x


class Spec:
    def __init__(self, cap, head_kind, starts):
        self.cap = cap
        self.head_kind = head_kind
        self.starts = starts
        self.name = "collection(head=%s,cap=%d)" % (head_kind, cap)

    def initials(self):
        return [["init", self.head_kind, list(s)] for s in self.starts]

    def build(self, init):
        _, head_kind, seq = init
        seams.reset_bnode_counter()
        S = State()
        S.g = Graph()
        S.head = BNode("head") if head_kind == "bnode" else URIRef("http://ex.org/list")
        S.decoys = set()
        for s, p, o in DECOYS:
            t = (T(s), T(p), S.head if o == "HEAD" else T(o))
            S.g.add(t)
            S.decoys.add(tuple(tkey(x) for x in t))
        S.c = Collection(S.g, S.head, [T(x) for x in seq])
        S.m = list(seq)
        return S

    def ops(self, S):
        n = len(S.m)
        out = []
        if n < self.cap:
            out += [["append", x] for x in MEMBERS]
        out.append(["iadd", []])
        if n + 2 <= self.cap:
            out += [["iadd", ["L0", "Lempty"]], ["iadd", ["A", "A"]], ["iadd", ["Lfalse", "L1"]]]
        if n + 1 <= self.cap:
            out += [["iadd", ["Lempty"]]]
        for i in range(n + 1):
            for x in MEMBERS:
                out.append(["set", i, x])
        for i in range(n + 1):
            out.append(["del", i])
        out.append(["clear"])
        return out

    def apply(self, S, op):
        kind = op[0]
        n = len(S.m)
        exp_exc = None
        got_exc = None
        cls = None
        try:
            if kind == "append":
                cls = ("append", _len_class(n), _mem_class(op[1]))
                S.m.append(op[1])
                S.c.append(T(op[1]))
            elif kind == "iadd":
                cls = ("iadd%d" % len(op[1]), _len_class(n))
                S.m += list(op[1])
                S.c += [T(x) for x in op[1]]
            elif kind == "set":
                i, x = op[1], op[2]
                cls = ("set", _len_class(n), _idx_class(i, n), _mem_class(x))
                if i >= n:
                    exp_exc = "IndexError"
                else:
                    S.m[i] = x
                S.c[i] = T(x)
            elif kind == "del":
                i = op[1]
                cls = ("del", _len_class(n), _idx_class(i, n),
                       _mem_class(S.m[i]) if i < n else "-")
                if i >= n:
                    exp_exc = "IndexError"
                else:
                    del S.m[i]
                del S.c[i]
            elif kind == "clear":
                cls = ("clear", _len_class(n))
                S.m.clear()
                S.c.clear()
        except Exception as e:  # noqa: BLE001
            got_exc = type(e).__name__
        if got_exc != exp_exc:
            if kind == "set" and exp_exc == "IndexError" and got_exc is None:
                # one call site (no bounds check in __setitem__), one signature
                return [("set/out-of-range|no-IndexError",
                         {"op": op, "list_before_len": n, "expected_exception": exp_exc, "got_exception": got_exc})]
            return [("%s|step-exception" % "/".join(cls),
                     {"op": op, "list_before_len": n, "expected_exception": exp_exc, "got_exception": got_exc})]
        return []

    def check(self, S):
        v = []
        m = S.m
        n = len(m)
        mk = [tkey(T(x)) for x in m]
        lc = _len_class(n)

        def bad(clause, **kw):
            # one defect shows through many reads; report the first failing clause of a sweep
            if not v:
                kw["model_list"] = m
                v.append(("%s|%s" % (lc, clause), kw))

        # chain well-formedness: exactly the decoys plus n cells from the head
        triples = {tuple(tkey(x) for x in t) for t in S.g}
        chain = triples - S.decoys
        if not S.decoys <= triples:
            bad("decoy-triple-lost", missing=sorted(S.decoys - triples))
        exp = set()
        node = S.head
        ok = True
        cells = []
        for i in range(n):
            firsts = list(S.g.objects(node, RDF.first))
            rests = list(S.g.objects(node, RDF.rest))
            if len(firsts) != 1 or len(rests) != 1 or tkey(firsts[0]) != mk[i]:
                ok = False
                break
            cells.append(node)
            exp.add((tkey(node), tkey(RDF.first), mk[i]))
            exp.add((tkey(node), tkey(RDF.rest), tkey(rests[0])))
            node = rests[0]
        if ok and n > 0 and tkey(node) != tkey(RDF.nil):
            ok = False
        if not ok or chain != exp:
            bad("chain-malformed", chain=sorted(chain), expected_cells=n)
        # reads
        try:
            ln = len(S.c)
            if ln != n:
                bad("len", got=ln)
        except Exception as e:  # noqa: BLE001
            bad("len-raises", exc=repr(e))
        try:
            lst = [tkey(x) for x in S.c]
            if lst != mk:
                bad("iter", got=lst)
        except Exception as e:  # noqa: BLE001
            bad("iter-raises", exc=repr(e))
        for i in range(n + 1):
            try:
                x = S.c[i]
                if i >= n:
                    bad("getitem-oor-no-IndexError", index=i, got=tkey(x))
                elif tkey(x) != mk[i]:
                    bad("getitem-wrong", index=i, got=tkey(x))
            except IndexError:
                if i < n:
                    bad("getitem-IndexError-in-range|" + _mem_class(m[i]), index=i)
            except Exception as e:  # noqa: BLE001
                bad("getitem-raises|%s|%s" % (_idx_class(i, n), _mem_class(m[i]) if i < n else "-"),
                    index=i, exc=repr(e))
        for x in MEMBERS + [ABSENT]:
            exp_i = m.index(x) if x in m else None
            try:
                gi = S.c.index(T(x))
                if gi != exp_i:
                    bad("index-wrong", item=x, got=gi, expected=exp_i)
            except ValueError:
                if exp_i is not None:
                    bad("index-ValueError-for-member", item=x)
            except Exception as e:  # noqa: BLE001
                bad("index-raises|" + ("member" if exp_i is not None else "absent"), item=x, exc=repr(e))
            try:
                gin = T(x) in S.c
                if gin != (x in m):
                    bad("contains", item=x, got=gin)
            except Exception as e:  # noqa: BLE001
                bad("contains-raises", item=x, exc=repr(e))
        return v

    def key(self, S):
        # all reachable (non-violating) states are well-formed chains, so the graph is
        # determined by the model list up to the ids of generated cells; include the
        # canonical chain anyway so a malformed-but-unnoticed residue cannot be merged.
        ren = {}
        node = S.head
        i = 0
        seen = set()
        while node is not None and node not in seen:
            seen.add(node)
            if isinstance(node, BNode):
                ren[tkey(node)] = ("B", "cell%d" % i)
            i += 1
            node = S.g.value(node, RDF.rest, any=True)
        rows = sorted((tuple(ren.get(tkey(x), tkey(x)) for x in t) for t in S.g), key=repr)
        # every field of the Collection object itself is part of the state (a cached cursor, a
        # remembered tail... would otherwise be merged away); cells renamed by chain position
        hidden = _rename(canon({k: v for k, v in vars(S.c).items() if k != "graph"}), ren)
        return (tuple(S.m), tuple(rows), hidden)

    def model_key(self, S):
        return tuple(S.m)

    def nontrivial(self, before, op, after):
        # touches first/last cell, a falsy member, or a list of length <= 1
        n = len(before)
        if n <= 1:
            return True
        if op[0] in ("append", "iadd", "clear"):
            return True
        i = op[1]
        if i == 0 or i >= n - 1:
            return True
        return any(is_falsy(x) for x in op[2:] if isinstance(x, str)) or (i < n and is_falsy(before[i]))


# ---------------------------------------------------------------------------
# broken / cyclic chains: every read terminates


def chain_shapes(ncells):
    """Every assignment of rest-targets and first-presence for n cells."""
    cells = list(range(ncells))
    rest_choices = [("none",), ("nil",)] + [("cell", j) for j in cells] + [("two", 0)]
    for rests in itertools.product(rest_choices, repeat=ncells):
        for firsts in itertools.product([True, False], repeat=ncells):
            yield rests, firsts


def build_chain(rests, firsts):
    g = Graph()
    nodes = [BNode("head")] + [BNode("c%d" % i) for i in range(1, len(rests))]
    for i, (r, f) in enumerate(zip(rests, firsts)):
        if f:
            g.add((nodes[i], RDF.first, T(MEMBERS[i % len(MEMBERS)])))
        if r[0] == "nil":
            g.add((nodes[i], RDF.rest, RDF.nil))
        elif r[0] == "cell":
            g.add((nodes[i], RDF.rest, nodes[r[1]]))
        elif r[0] == "two":
            g.add((nodes[i], RDF.rest, RDF.nil))
            g.add((nodes[i], RDF.rest, nodes[r[1]]))
    return g, nodes[0]


READS = ["len", "iter", "get0", "get1", "get2", "get3", "index_member", "index_absent", "contains_absent", "n3"]


def do_read(c, r):
    if r == "len":
        return len(c)
    if r == "iter":
        return list(c)
    if r.startswith("get"):
        return c[int(r[3:])]
    if r == "index_member":
        return c.index(T("Lempty"))
    if r == "index_absent":
        return c.index(T(ABSENT))
    if r == "contains_absent":
        return T(ABSENT) in c
    if r == "n3":
        return c.n3()


def _is_cyclic(rests):
    i = 0
    seen = set()
    while True:
        if i in seen:
            return True
        seen.add(i)
        r = rests[i]
        if r[0] == "cell":
            i = r[1]
        elif r[0] == "two":
            return True  # branching
        else:
            return False


def run_chain_case(case, horizon=2.0):
    rests, firsts, r = case
    rests = [tuple(x) for x in rests]
    g, head = build_chain(rests, firsts)
    c = Collection(g, head)
    before = {tuple(tkey(x) for x in t) for t in g}
    try:
        with seams.watchdog(horizon):
            do_read(c, r)
    except seams.Timeout:
        return ("broken-chain|%s|does-not-terminate" % r.rstrip("0123"),
                {"rests": rests, "firsts": firsts, "read": r, "horizon_s": horizon})
    except Exception:  # noqa: BLE001
        pass
    after = {tuple(tkey(x) for x in t) for t in g}
    if after != before:
        return ("broken-chain|%s|read-mutates" % r, {"rests": rests, "firsts": firsts, "read": r})
    return None


def _chain_batch(cases):
    out = []
    nontriv = 0
    for case in cases:
        v = run_chain_case(case)
        if _is_cyclic([tuple(x) for x in case[0]]):
            nontriv += 1
        if v:
            out.append({"sig": v[0], "case": {"chain": case}, "detail": v[1]})
    return out, len(cases), nontriv


def run(ctx):
    thorough = ctx.tier == "thorough"
    cap = 5 if thorough else 4
    starts = [list(s) for n in range(0, 4) for s in _starts(n)]
    for head_kind in ("bnode", "iri"):
        spec = Spec(cap if head_kind == "bnode" else min(cap, 4), head_kind, starts)
        explore.bfs(spec, ctx, max_depth=12 if thorough else 8, batch=4)
    # broken chains
    cases = []
    for n in (1, 2, 3):
        for rests, firsts in chain_shapes(n):
            for r in READS:
                cases.append([list(map(list, rests)), list(firsts), r])
    res = R.pmap(_chain_batch, R.shards(cases, ctx.jobs * 4), ctx.jobs)
    nc = 0
    for viols, n, nt in res:
        ctx.extend(viols)
        nc += n
        ctx.add("broken_chain_cyclic_cases", nt)
    ctx.cov["broken_chain_cases"] = nc
    ctx.cov["exhaustive"] = True
    ctx.cov["rule"] = ("BFS over histories of append/+=/setitem/delitem/clear on Collection (members %s, list cap %d, "
                       "heads bnode+IRI, start lists of length 0..3), Python list as model, full read sweep in every state; "
                       "plus every rest/first shape on <=3 cells x %d reads under a watchdog. Non-trivial transition: touches "
                       "first/last cell, a falsy member or a list of length <=1." % (MEMBERS, cap, len(READS)))
    ctx.sample({"chain": cases[len(cases) // 3]})
    ctx.assumptions += ["negative indices and slices not in the alphabet",
                        "termination clause decided with a 2 s horizon per read (bounded liveness)"]


def _starts(n):
    base = ["L0", "Lempty", "A"]
    if n == 0:
        return [[]]
    # all lists of length n over a 3-member sub-alphabet (falsy, falsy, truthy)
    return [list(p) for p in itertools.product(base, repeat=n)]


def replay(ctx, case):
    if "history" in case:
        h = case["history"]
        init = h[0]
        spec = Spec(6, init[1], [])
        viols = explore.run_history(spec, h)
        return [{"sig": s, "case": case, "detail": d} for s, d in viols]
    v = run_chain_case(case["chain"], horizon=20.0)
    return [{"sig": v[0], "case": case, "detail": v[1]}] if v else []


META = {
    "text": "Explicit-state model checking of the real Collection class: BFS over all histories of append, +=, item assignment, "
            "item deletion (every index incl. out of range) and clear, run to closure under a list-length cap, with a Python "
            "list as reference model; every state gets the full read sweep (len, iteration, c[i], index, membership) and a "
            "chain well-formedness / no-orphan check on the graph's triples. All rest/first shapes on <=3 cells are enumerated "
            "for the termination clause. Closure means the verdict covers histories of any length over the vocabulary.",
    "note": "Small scope: 5 member terms (3 falsy), lists capped at 4 (quick) / 5 (thorough) cells, bnode and IRI heads; negative "
            "indices and slices not explored; termination decided with a 2 s horizon per read.",
    "technique": "explicit-state BFS to closure over operation histories of the real code vs a Python-list reference model",
}
