"""C20 - a graph backed by a SPARQL endpoint mirrors and updates the endpoint faithfully.

An in-process loopback endpoint replaces urlopen in rdflib.plugins.stores.sparqlconnector: it decodes the
Request as the SPARQL 1.1 Protocol prescribes (GET / POST direct / POST form; default-graph-uri;
Accept), evaluates it with rdflib's own engine on a backing Dataset and answers in SPARQL XML or JSON.
(1) Term transport: every term of a table through add + read back, for all method x format
combinations. (2) BFS-style enumeration of all histories (to a depth) of add / remove (exact and
wildcard) / commit / rollback / reads on Graph(SPARQLUpdateStore, G1) and Dataset(SPARQLUpdateStore)
for autocommit x dirty_reads; after every step the endpoint's dataset must equal the model's committed
content and every read must answer like a local graph.
"""
from __future__ import annotations

import io
import itertools
import warnings
from urllib.parse import parse_qs, urlsplit

import rdflib
import rdflib.plugins.sparql as sparql_mod
import rdflib.plugins.stores.sparqlconnector as connector
from rdflib import BNode, Dataset, Graph, Literal, URIRef
from rdflib.graph import DATASET_DEFAULT_GRAPH_ID
from rdflib.namespace import XSD
from rdflib.plugins.stores.sparqlstore import SPARQLUpdateStore

from .. import run as R
from .. import seams
from ..canon import tkey
from ..rt import dataset_rows, mk

ID = "C20"
LEVEL = "model_checking"

EX = "http://ex.org/"
QUERY_URL = "http://loopback.invalid/query"
UPDATE_URL = "http://loopback.invalid/update"
G1, G2 = URIRef(EX + "g1"), URIRef(EX + "g2")


class _Headers(dict):
    def get(self, k, d=None):
        for kk, v in self.items():
            if kk.lower() == k.lower():
                return v
        return d

    def __getitem__(self, k):
        v = self.get(k)
        if v is None:
            raise KeyError(k)
        return v


class _Response:
    def __init__(self, body, ctype):
        self._body = body
        self.headers = _Headers({"Content-Type": ctype})
        self.status = 200

    def read(self):
        return self._body


class Endpoint:
    """SPARQL 1.1 Protocol endpoint over a backing Dataset, without sockets."""

    def __init__(self):
        self.ds = Dataset()
        self.requests = 0
        self.log = []

    def __call__(self, request, *args, **kwargs):
        self.requests += 1
        url = urlsplit(request.full_url)
        params = {k: v for k, v in parse_qs(url.query, keep_blank_values=True).items()}
        headers = _Headers({k: v for k, v in request.header_items()})
        method = request.get_method()
        body = request.data
        ctype = (headers.get("Content-Type") or "").split(";")[0].strip().lower()
        if url.path.endswith("/update"):
            if method != "POST":
                raise ValueError("update must be POSTed")
            if ctype == "application/sparql-update":
                text = body.decode("utf-8")
            else:
                form = parse_qs(body.decode("utf-8"), keep_blank_values=True)
                text = form["update"][0]
                params.update(form)
            self.log.append(("update", text))
            old_u, old_l = sparql_mod.SPARQL_DEFAULT_GRAPH_UNION, sparql_mod.SPARQL_LOAD_GRAPHS
            sparql_mod.SPARQL_DEFAULT_GRAPH_UNION, sparql_mod.SPARQL_LOAD_GRAPHS = False, False
            try:
                self.ds.update(text)
            finally:
                sparql_mod.SPARQL_DEFAULT_GRAPH_UNION, sparql_mod.SPARQL_LOAD_GRAPHS = old_u, old_l
            return _Response(b"", "text/plain")
        # query
        if method == "GET":
            text = params["query"][0]
        elif ctype == "application/sparql-query":
            text = body.decode("utf-8")
        else:
            form = parse_qs(body.decode("utf-8"), keep_blank_values=True)
            text = form["query"][0]
            for k, v in form.items():
                if k != "query":
                    params[k] = v
        self.log.append(("query", text, params.get("default-graph-uri")))
        dg = params.get("default-graph-uri")
        old_u = sparql_mod.SPARQL_DEFAULT_GRAPH_UNION
        sparql_mod.SPARQL_DEFAULT_GRAPH_UNION = False
        try:
            if dg:
                target = Graph(self.ds.store, URIRef(dg[0]))
            else:
                target = self.ds
            res = target.query(text)
            accept = headers.get("Accept") or ""
            if "json" in accept and "xml" not in accept.split(",")[0]:
                fmt, ct = "json", "application/sparql-results+json"
            else:
                fmt, ct = "xml", "application/sparql-results+xml"
            data = res.serialize(format=fmt)
        finally:
            sparql_mod.SPARQL_DEFAULT_GRAPH_UNION = old_u
        return _Response(data, ct)


def install(endpoint):
    connector.urlopen = endpoint


def make_store(method, fmt, autocommit, dirty):
    st = SPARQLUpdateStore(QUERY_URL, UPDATE_URL, returnFormat=fmt, method=method, autocommit=autocommit, dirty_reads=dirty)
    return st


# ---- (1) term transport --------------------------------------------------------------------

def term_table(thorough):
    out = []
    for u in [EX + "a", EX + "b#c?d=e&f=g", "urn:x:y", EX + "é"]:
        out.append(["I", u, None, None])
    strings = ["", "a", '"', "'", "\\", "\n", "\r", "\t", " ", "é", "\U0001F600", '\\"', '"\n', "\t\t", "a\r\n", "\\n", " a ", '"""', "'''", "a'b\"c", "{}", "<x>", "&amp;", "%20", "?x", "#"]
    for s in strings:
        out.append(["L", s, None, None])
    for s in ["", "a", '"', "\n", "é", "\t"]:
        out.append(["L", s, None, "en"])
        out.append(["L", s, str(XSD.string), None])
        out.append(["L", s, EX + "dt", None])
    for lex, dt in [("0", XSD.integer), ("1", XSD.integer), ("-5", XSD.integer), ("false", XSD.boolean), ("true", XSD.boolean), ("0.0", XSD.double),
                    ("1.5E0", XSD.double), ("NaN", XSD.double), ("INF", XSD.float), ("1.5", XSD.decimal), ("1", XSD.decimal), ("2024-01-01", XSD.date),
                    ("2024-01-01T00:00:00Z", XSD.dateTime), ("x", XSD.integer), ("123456789.0", XSD.double)]:
        out.append(["L", lex, str(dt), None])
    out.append(["L", "x", None, "en-US"])
    return out


def term_class(d):
    if d[0] == "I":
        return "iri"
    for ch, name in (("\r", "cr"), ("\n", "lf"), ("\t", "tab"), ("\\", "backslash"), ('"', "dquote"), ("'", "squote")):
        if ch in d[1]:
            return "literal-" + name
    t = mk(d)
    if not bool(t):
        return "literal-falsy"
    return "literal-" + ("typed" if d[2] else "lang" if d[3] else "plain")


def term_case(method, fmt, d):
    ep = Endpoint()
    install(ep)
    store = make_store(method, fmt, True, False)
    g = Graph(store, identifier=G1)
    s, p = URIRef(EX + "s"), URIRef(EX + "p")
    t = mk(d)
    cls = "%s|%s|%s" % (method, fmt, term_class(d))
    try:
        with seams.watchdog(20.0), warnings.catch_warnings():
            warnings.simplefilter("ignore")
            if d[0] == "I":
                g.add((t, p, t))
                want = {(tkey(t), tkey(p), tkey(t), tkey(G1))}
            else:
                g.add((s, p, t))
                want = {(tkey(s), tkey(p), tkey(t), tkey(G1))}
            at_endpoint = dataset_rows(ep.ds)
            if at_endpoint != want:
                return ("term-transport|add|endpoint-holds-a-different-term|" + cls, {"endpoint": sorted(at_endpoint, key=repr), "expected": sorted(want, key=repr), "log": ep.log[-2:]})
            back = {(tkey(a), tkey(b), tkey(c)) for a, b, c in g.triples((None, None, None))}
            if back != {r[:3] for r in want}:
                return ("term-transport|read|term-comes-back-changed|" + cls, {"read": sorted(back, key=repr), "expected": sorted(r[:3] for r in want)})
            one = (t, p, t) if d[0] == "I" else (s, p, t)
            if one not in g:
                return ("term-transport|contains|false-for-stored-triple|" + cls, {"triple": [tkey(x) for x in one]})
            if len(g) != 1:
                return ("term-transport|len|wrong|" + cls, {"len": len(g)})
            g.remove(one)
            if dataset_rows(ep.ds):
                return ("term-transport|remove|triple-still-at-endpoint|" + cls, {"endpoint": sorted(dataset_rows(ep.ds), key=repr), "log": ep.log[-1:]})
    except Exception as e:  # noqa: BLE001
        return ("term-transport|raises|%s|%s" % (type(e).__name__, cls), {"exc": repr(e)[:300], "log": [str(x)[:300] for x in ep.log[-2:]]})
    return None


def bnode_case(method, fmt):
    ep = Endpoint()
    install(ep)
    store = make_store(method, fmt, True, False)
    g = Graph(store, identifier=G1)
    try:
        g.add((BNode("b"), URIRef(EX + "p"), URIRef(EX + "o")))
    except Exception:  # noqa: BLE001
        if dataset_rows(ep.ds):
            return ("bnode|rejected-but-endpoint-changed|%s|%s" % (method, fmt), {})
        return None
    return ("bnode|silently-accepted|%s|%s" % (method, fmt), {"endpoint": sorted(dataset_rows(ep.ds), key=repr)})


# ---- (2) histories ---------------------------------------------------------------------------

T = {"t1": (URIRef(EX + "a"), URIRef(EX + "p"), URIRef(EX + "b")), "t2": (URIRef(EX + "a"), URIRef(EX + "q"), Literal("")),
     "t3": (URIRef(EX + "b"), URIRef(EX + "p"), Literal("x\ty"))}
PAT = {"S": (URIRef(EX + "a"), None, None), "O": (None, None, Literal("")), "P": (None, URIRef(EX + "p"), None), "ALL": (None, None, None),
       "SP": (URIRef(EX + "a"), URIRef(EX + "p"), None), "PO": (None, URIRef(EX + "q"), Literal("")), "SO": (URIRef(EX + "a"), None, URIRef(EX + "b")), "SO2": (URIRef(EX + "a"), None, Literal(""))}

GRAPH_OPS = ([["add", t] for t in T] + [["remove", t] for t in ("t1", "t2")] + [["removew", p] for p in ("S", "O", "ALL")] + [["addN"]] +
             [["commit"], ["rollback"], ["update"], ["update-bindings"]] +
             [["read", p] for p in PAT] + [["read-exact", "t2"], ["len"], ["contains", "t1"], ["query"], ["query-bindings"]])
DATASET_OPS = ([["addNq"], ["addq", "t1", "g1"], ["addq", "t1", "g2"], ["addq", "t2", "g2"], ["removeq", "t1", "g1"], ["removeq", "t1", None], ["removeqw", "ALL", "g2"],
                ["remove_graph", "g1"], ["commit"], ["rollback"], ["contexts"], ["quads"], ["readq", "g2"]])


def tk3(t):
    return tuple(tkey(x) for x in t)


def matches(pat, t):
    return all(p is None or tkey(p) == tkey(x) for p, x in zip(pat, t))


class Model:
    """committed: set of (triple name, graph); queue: list of pending edits."""

    def __init__(self, autocommit, dirty):
        self.autocommit, self.dirty = autocommit, dirty
        self.committed = set()
        self.queue = []

    def _apply(self, content, edit):
        k = edit[0]
        if k == "add":
            content.add((edit[1], edit[2]))
        elif k == "remove":
            content.discard((edit[1], edit[2]))
        elif k == "removew":
            for q in [q for q in content if (edit[2] is None or q[1] == edit[2]) and matches(edit[1], T[q[0]])]:
                content.discard(q)
        elif k == "remove_graph":
            for q in [q for q in content if q[1] == edit[1]]:
                content.discard(q)

    def write(self, edit):
        self.queue.append(edit)
        if self.autocommit:
            self.commit()

    def commit(self):
        for e in self.queue:
            self._apply(self.committed, e)
        self.queue = []

    def rollback(self):
        self.queue = []

    def before_read(self):
        if not self.autocommit and not self.dirty:
            self.commit()

    def rows(self):
        return {tk3(T[t]) + (tkey(G1 if g == "g1" else G2),) for t, g in self.committed}


def run_history(client, cfg, ops, horizon=30.0):
    """cfg = (method, fmt, autocommit, dirty). Returns (violation|None, steps)."""
    method, fmt, autocommit, dirty = cfg
    ep = Endpoint()
    install(ep)
    store = make_store(method, fmt, autocommit, dirty)
    model = Model(autocommit, dirty)
    if client == "graph":
        g = Graph(store, identifier=G1)
    else:
        g = Dataset(store)
    ccls = "%s|autocommit=%s,dirty_reads=%s" % (client, autocommit, dirty)
    steps = 0
    for op in ops:
        steps += 1
        k = op[0]
        try:
            with seams.watchdog(horizon), warnings.catch_warnings():
                warnings.simplefilter("ignore")
                if k == "add":
                    g.add(T[op[1]])
                    model.write(("add", op[1], "g1"))
                elif k == "addN":
                    g.addN([T["t1"] + (g,), T["t3"] + (g,)])
                    model.queue += [("add", "t1", "g1"), ("add", "t3", "g1")]
                    if autocommit:
                        model.commit()
                elif k == "remove":
                    g.remove(T[op[1]])
                    model.write(("remove", op[1], "g1"))
                elif k == "removew":
                    g.remove(PAT[op[1]])
                    model.write(("removew", PAT[op[1]], "g1"))
                elif k == "update":
                    g.update("INSERT DATA { <%sb> <%sp> \"x\\ty\" }" % (EX, EX))
                    model.write(("add", "t3", "g1"))
                elif k == "update-bindings":
                    # two initial bindings, handed over in an order that is not the alphabetical one of their names
                    g.update("DELETE { ?s ?p ?o } WHERE { ?s ?p ?o }", initBindings={"s": T["t2"][0], "o": T["t2"][2]})
                    model.write(("removew", PAT["SO2"], "g1"))
                elif k == "commit":
                    g.commit()
                    model.commit()
                elif k == "rollback":
                    g.rollback()
                    model.rollback()
                elif k in ("read", "read-exact", "len", "contains", "query", "query-bindings"):
                    model.before_read()
                    here = {q[0] for q in model.committed if q[1] == "g1"}
                    if k == "read":
                        got = sorted(tk3(t) for t in g.triples(PAT[op[1]]))
                        exp = sorted(tk3(T[t]) for t in here if matches(PAT[op[1]], T[t]))
                    elif k == "read-exact":
                        got = sorted(tk3(t) for t in g.triples(T[op[1]]))
                        exp = sorted(tk3(T[t]) for t in here if t == op[1])
                    elif k == "len":
                        got, exp = len(g), len(here)
                    elif k == "contains":
                        got, exp = (T[op[1]] in g), (op[1] in here)
                    elif k == "query-bindings":
                        got = sorted(tk3(r) for r in g.query("SELECT ?s ?p ?o WHERE { ?s ?p ?o }", initBindings={"s": T["t1"][0], "p": T["t1"][1]}))
                        exp = sorted(tk3(T[t]) for t in here if matches(PAT["SP"], T[t]))
                    else:
                        got = sorted(tk3(r) for r in g.query("SELECT ?s ?p ?o WHERE { ?s ?p ?o }"))
                        exp = sorted(tk3(T[t]) for t in here)
                    if got != exp:
                        return (("%s|%s|read-differs-from-local-graph" % (ccls, k if k != "read" else "triples:" + "".join("b" if x is not None else "x" for x in PAT[op[1]])),
                                 {"ops": ops[:steps], "got": got, "expected": exp}), steps)
                elif k == "addNq":
                    # one batch whose quads of one graph are not adjacent
                    # (graph names, not Graph views: Dataset.addN merges a Graph argument into the graph of that name first, which reads it)
                    g.addN([T["t1"] + (G1,), T["t2"] + (G2,), T["t3"] + (G1,), T["t1"] + (G2,)])
                    model.queue += [("add", "t1", "g1"), ("add", "t2", "g2"), ("add", "t3", "g1"), ("add", "t1", "g2")]
                    if autocommit:
                        model.commit()
                elif k == "addq":
                    gg = G1 if op[2] == "g1" else G2
                    g.add(T[op[1]] + (gg,))
                    model.write(("add", op[1], op[2]))
                elif k == "removeq":
                    gg = None if op[2] is None else (G1 if op[2] == "g1" else G2)
                    g.remove(T[op[1]] + (gg,))
                    model.write(("removew", T[op[1]], op[2]))
                elif k == "removeqw":
                    gg = G1 if op[2] == "g1" else G2
                    g.remove(PAT[op[1]] + (gg,))
                    model.write(("removew", PAT[op[1]], op[2]))
                elif k == "remove_graph":
                    g.remove_graph(G1)
                    model.write(("remove_graph", "g1"))
                elif k in ("contexts", "quads", "readq"):
                    model.before_read()
                    if k == "contexts":
                        got = sorted(tkey(c.identifier if isinstance(c, Graph) else c) for c in g.store.contexts())
                        exp = sorted({tkey(G1 if q[1] == "g1" else G2) for q in model.committed})
                    elif k == "quads":
                        got = sorted(tk3(t) for t in Graph(store, G2).triples((None, None, None))) + sorted(tk3(t) for t in Graph(store, G1).triples((None, None, None)))
                        exp = sorted(tk3(T[q[0]]) for q in model.committed if q[1] == "g2") + sorted(tk3(T[q[0]]) for q in model.committed if q[1] == "g1")
                    else:
                        got = sorted(tk3(t[:3]) for t in g.quads((None, None, None, G2)))
                        exp = sorted(tk3(T[q[0]]) for q in model.committed if q[1] == "g2")
                    if k == "contexts":
                        # an endpoint may also list empty named graphs ("some SPARQL endpoints are not able to find empty named graphs")
                        ok = set(exp) <= set(got) <= {tkey(G1), tkey(G2)}
                    else:
                        ok = got == exp
                    if not ok:
                        return (("%s|%s|read-differs-from-local-dataset" % (ccls, k), {"ops": ops[:steps], "got": got, "expected": exp}), steps)
        except Exception as e:  # noqa: BLE001
            return (("%s|%s|raises|%s" % (ccls, k, type(e).__name__), {"ops": ops[:steps], "exc": repr(e)[:300], "log": [str(x)[:200] for x in ep.log[-2:]]}), steps)
        at_endpoint = dataset_rows(ep.ds)
        if at_endpoint != model.rows():
            kind = "uncommitted-write-visible-at-endpoint" if (not autocommit and model.queue) else "endpoint-differs-from-model"
            return (("%s|%s|%s" % (ccls, k, kind), {"ops": ops[:steps], "endpoint": sorted(at_endpoint, key=repr), "expected": sorted(model.rows(), key=repr),
                                                   "log": [str(x)[:200] for x in ep.log[-3:]]}), steps)
    if not autocommit and model.queue:
        # closing step of every history: whatever is still pending must reach the endpoint, in order, at commit()
        steps += 1
        try:
            store.commit()
        except Exception as e:  # noqa: BLE001
            return (("%s|closing-commit|raises|%s" % (ccls, type(e).__name__), {"ops": ops, "exc": repr(e)[:300]}), steps)
        model.commit()
        at_endpoint = dataset_rows(ep.ds)
        if at_endpoint != model.rows():
            return (("%s|closing-commit|endpoint-differs-from-model" % ccls, {"ops": ops, "endpoint": sorted(at_endpoint, key=repr), "expected": sorted(model.rows(), key=repr),
                                                                            "log": [str(x)[:200] for x in ep.log[-3:]]}), steps)
    return (None, steps)


def _hist_batch(items):
    viols = []
    steps = 0
    for client, cfg, ops in items:
        v, n = run_history(client, tuple(cfg), [list(o) for o in ops])
        steps += n
        if v:
            viols.append({"sig": "%s|%s|%s" % (cfg[0], cfg[1], v[0]) if False else v[0], "detail": v[1], "case": {"history": [client, list(cfg), [list(o) for o in ops]]}})
    best = {}
    for v in viols:
        if v["sig"] not in best or len(v["case"]["history"][2]) < len(best[v["sig"]]["case"]["history"][2]):
            best[v["sig"]] = v
    return list(best.values()), steps, len(items)


def _term_batch(items):
    viols = []
    for method, fmt, d in items:
        v = term_case(method, fmt, d) if d != "BNODE" else bnode_case(method, fmt)
        if v:
            viols.append({"sig": v[0], "detail": v[1], "case": {"term": [method, fmt, d]}})
    return viols, len(items)


def run(ctx):
    thorough = ctx.tier == "thorough"
    terms = term_table(thorough)
    items = [(m, f, d) for m in ("GET", "POST", "POST_FORM") for f in ("xml", "json") for d in terms + ["BNODE"]]
    res = R.pmap(_term_batch, R.shards(items, ctx.jobs * 4), ctx.jobs)
    nterm = 0
    for viols, n in res:
        ctx.extend(viols)
        nterm += n
    depth = 4 if thorough else 3
    hist = []
    cfgs_full = [(m, f, a, d) for m in ("GET", "POST", "POST_FORM") for f in ("xml", "json") for a in (True, False) for d in (True, False)]
    for cfg in cfgs_full:
        # all configurations: every history of length <= 2
        for L in (1, 2):
            for ops in itertools.product(GRAPH_OPS, repeat=L):
                hist.append(("graph", cfg, ops))
            for ops in itertools.product(DATASET_OPS, repeat=L):
                hist.append(("dataset", cfg, ops))
    writes = [o for o in GRAPH_OPS if o[0] in ("add", "remove", "removew", "commit", "rollback", "addN")]
    reads = [["read", "ALL"], ["len"], ["contains", "t1"], ["read", "O"]]
    for (a, d) in ((True, False), (False, False), (False, True)):
        cfg = ("POST", "json" if a else "xml", a, d)
        for L in range(3, depth + 1):
            for ops in itertools.product(writes + reads, repeat=L):
                hist.append(("graph", cfg, ops))
        for ops in itertools.product(DATASET_OPS, repeat=3):
            hist.append(("dataset", cfg, ops))
    res = R.pmap(_hist_batch, R.shards(hist, ctx.jobs * 16), ctx.jobs)
    steps = 0
    for viols, n, nh in res:
        ctx.extend(viols)
        steps += n
    ctx.cov["states"] = len(hist)
    ctx.cov["transitions"] = steps
    ctx.cov["traces_validated_against_impl"] = len(hist)
    ctx.cov["term_transport_cases"] = nterm
    ctx.cov["max_depth"] = depth
    ctx.cov["exhaustive"] = True
    ctx.cov["rule"] = ("loopback SPARQL-protocol endpoint (no sockets) over a backing Dataset. Term transport: %d terms x {GET, POST, POST_FORM} x {xml, json}: add, endpoint "
                       "content, read back, membership, len, remove; blank nodes must be rejected without effect. Histories: every sequence of <=2 operations of the Graph "
                       "client alphabet (%d ops) and the Dataset client alphabet (%d ops) for all 24 configurations (method x format x autocommit x dirty_reads); every "
                       "sequence of <=%d operations of the write+read sub-alphabet for 3 transaction configurations. After every step the endpoint's dataset equals the "
                       "model's committed content; every read equals the local answer." % (len(terms), len(GRAPH_OPS), len(DATASET_OPS), depth))
    ctx.sample({"history": ["graph", ["POST", "xml", False, False], [["add", "t1"], ["read", "ALL"], ["rollback"]]]})
    ctx.assumptions += ["the endpoint evaluates requests with rdflib's own engine: a defect shared by both sides is invisible here (it belongs to C04/C10)",
                        "urlopen is replaced inside the check process only; HTTP error paths are not explored"]


def replay(ctx, case):
    if "term" in case:
        m, f, d = case["term"]
        v = term_case(m, f, d) if d != "BNODE" else bnode_case(m, f)
        return [{"sig": v[0], "case": case, "detail": v[1]}] if v else []
    client, cfg, ops = case["history"]
    v, _ = run_history(client, tuple(cfg), ops, horizon=120.0)
    return [{"sig": v[0], "case": case, "detail": v[1]}] if v else []


META = {
    "text": "Exploration of the real SPARQLUpdateStore against an in-process SPARQL 1.1 Protocol endpoint (urlopen replaced by a loopback that decodes GET / POST / POST "
            "form requests and answers in SPARQL XML or JSON): exhaustive term transport of a literal/IRI table for all six method x format combinations, and all "
            "operation histories to a stated depth for Graph and Dataset clients under every autocommit x dirty_reads configuration, with a model of committed content "
            "plus a queue of uncommitted writes; the endpoint's dataset is inspected directly after every step and every read is compared with the local answer.",
    "note": "The endpoint is rdflib's own engine; 3 triples (one with a falsy, one with a TAB object) x 2 graphs; depth 3 (quick) / 4 (thorough) on a sub-alphabet; query and update with two initial bindings; HTTP "
            "errors, authentication and real sockets are out of scope.",
    "technique": "exhaustive enumeration of client operation histories against a loopback protocol endpoint with a committed/queued reference model",
}
