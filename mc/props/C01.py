"""C01 - a Graph is exactly the set its history implies; iterating while mutating is safe.

(1) BFS to closure over histories of add / remove(27 patterns) / set / addN / += / -= / binary
operators (and, on Memory, the same mutations on a sibling graph of the same store), model = set;
full observation sweep (len, iteration, membership, triples() for 27 patterns as multisets) in
every state; fingerprint = model + all store internals (index residue, context maps).
(2) Default store: every merge of open-iterator steps with <= m mutations, from every base state.
"""
from __future__ import annotations

import itertools

from rdflib import Graph
from rdflib.plugins.stores.memory import Memory, SimpleMemory

from .. import explore, seams
from .. import run as R
from ..canon import canon, tkey
from ..vocab import T, is_falsy

ID = "C01"
LEVEL = "model_checking"

SUBJ = ["A", "b1"]
PRED = ["P", "Q"]


class Vocab:
    def __init__(self, lit, extra=None, subjects=None):
        # lit: vocabulary name of the literal object used for adds; lookups may use a
        # different spelling of an equal term (language-case pair)
        self.lit = lit
        self.lit_lookup = "Lx_EN" if lit == "Lx_en" else lit
        self.objs = ["A", lit] + ([extra] if extra else [])
        self.subj = list(subjects or SUBJ)
        self.triples = [(s, p, o) for s in self.subj for p in PRED for o in self.objs]
        self.tkeys = {t: tuple(tkey(T(x)) for x in t) for t in self.triples}
        self.patterns = [(s, p, o) for s in [None] + self.subj for p in [None] + PRED for o in [None] + self.objs]
        self.foreign = ("Z", "P", "Z")

    def look(self, name):
        return T(self.lit_lookup) if name == self.lit else T(name)

    def pat_terms(self, pat):
        return tuple(None if x is None else self.look(x) for x in pat)

    def matches(self, pat, t):
        return all(p is None or p == x for p, x in zip(pat, t))


def operand_sets(V):
    tr = V.triples
    return {"H0": [], "H1": [tr[0], tr[3]], "H2": [tr[1], tr[-1]], "H3": list(tr[:5])}


class State:
    pass


class Spec:
    def __init__(self, store, lit, extra=None, sibling=False, binops=True, subjects=None, expand_binops=True):
        self.store = store
        self.subjects = subjects
        self.expand_binops = expand_binops
        self.V = Vocab(lit, extra, subjects)
        self.sibling = sibling and store == "Memory"
        self.binops = binops
        self.H = operand_sets(self.V)
        self.name = "graph(store=%s,lit=%s,extra=%s,sibling=%s,subjects=%s,binops=%s)" % (
            store, lit, extra, self.sibling, self.V.subj, "off" if not binops else "expanded" if expand_binops else "terminal")

    def initials(self):
        return [["init", self.store, self.V.lit, self.V.subj]]

    def expandable(self, op):
        return self.expand_binops or op[0] != "binop"

    def _mkstore(self):
        return Memory() if self.store == "Memory" else SimpleMemory()

    def build(self, init):
        seams.reset_bnode_counter()
        S = State()
        S.store = self._mkstore()
        S.g = Graph(S.store, identifier=T("G1"), bind_namespaces="none")
        S.m = set()
        S.sib = Graph(S.store, identifier=T("G2"), bind_namespaces="none") if self.sibling else None
        S.sm = set()
        S.last = "init"
        return S

    def ops(self, S):
        V = self.V
        out = []
        for t in V.triples:
            out.append(["add", list(t)])
        for p in V.patterns:
            out.append(["remove", list(p)])
        for t in V.triples:
            out.append(["set", list(t)])
        for who in ("self", "equal-id", "other"):
            for t in (V.triples[0], V.triples[1]):
                out.append(["addN", who, list(t)])
        for h in self.H:
            out.append(["iadd", h])
            out.append(["isub", h])
        if self.binops:
            for h in self.H:
                for o in ("+", "-", "*", "^"):
                    out.append(["binop", o, h])
            # the other operand is a different graph (own store, own content) that carries the same identifier
            for h in self.H:
                out.append(["iadd", h, "same-id"])
                out.append(["isub", h, "same-id"])
                for o in ("+", "-", "*", "^"):
                    out.append(["binop", o, h, "same-id"])
        if self.sibling:
            for t in (V.triples[0], V.triples[1]):
                out.append(["sib_add", list(t)])
                out.append(["sib_remove", list(t)])
            out.append(["sib_remove", [None, None, None]])
        return out

    def _operand(self, h, like=None):
        g = Graph(bind_namespaces="none") if like is None else Graph(identifier=like.identifier, bind_namespaces="none")
        for t in self.H[h]:
            g.add(T(t))
        return g

    def apply(self, S, op):
        V = self.V
        k = op[0]
        S.last = k
        try:
            if k == "add":
                t = tuple(op[1])
                S.g.add(T(t))
                S.m.add(t)
            elif k == "remove":
                pat = tuple(op[1])
                S.g.remove(V.pat_terms(pat))
                S.m = {t for t in S.m if not V.matches(pat, t)}
                S.last = "remove:" + "".join("x" if x is None else "b" for x in pat)
            elif k == "set":
                t = tuple(op[1])
                S.g.set(T(t))
                S.m = {u for u in S.m if not (u[0] == t[0] and u[1] == t[1])}
                S.m.add(t)
            elif k == "addN":
                who, t = op[1], tuple(op[2])
                if who == "self":
                    c = S.g
                elif who == "equal-id":
                    c = Graph(S.g.store, identifier=type(S.g.identifier)(str(S.g.identifier)))
                else:
                    c = Graph(S.g.store, identifier=T("G3"))
                S.g.addN([T(t) + (c,)])
                if who != "other":
                    S.m.add(t)
                S.last = "addN:" + who
            elif k == "iadd":
                S.g += self._operand(op[1], S.g if len(op) > 2 else None)
                S.m |= set(self.H[op[1]])
            elif k == "isub":
                S.g -= self._operand(op[1], S.g if len(op) > 2 else None)
                S.m -= set(self.H[op[1]])
            elif k == "binop":
                o, h = op[1], op[2]
                H = self._operand(h, S.g if len(op) > 3 else None)
                hs = set(self.H[h])
                before = set(S.m)
                if o == "+":
                    r, S.m = S.g + H, before | hs
                elif o == "-":
                    r, S.m = S.g - H, before - hs
                elif o == "*":
                    r, S.m = S.g * H, before & hs
                else:
                    r, S.m = S.g ^ H, before ^ hs
                # the operands must be unchanged
                left = {tuple(tkey(x) for x in t) for t in S.g}
                if left != {V.tkeys[t] for t in before}:
                    return [("binop|left-operand-changed", {"op": op})]
                if {tuple(tkey(x) for x in t) for t in H} != {V.tkeys[t] for t in hs}:
                    return [("binop|right-operand-changed", {"op": op})]
                # the operands stay around: whatever is done to the result later, they remain what they were (checked in every later state)
                S.left, S.left_m, S.right, S.right_m = S.g, frozenset(before), H, frozenset(hs)
                S.g = r
                S.store = r.store
                S.sib = None if S.sib is None else S.sib
                S.last = "binop" + o
            elif k == "sib_add":
                t = tuple(op[1])
                S.sib.add(T(t))
                S.sm.add(t)
            elif k == "sib_remove":
                pat = tuple(op[1])
                S.sib.remove(V.pat_terms(pat))
                S.sm = {t for t in S.sm if not V.matches(pat, t)}
        except Exception as e:  # noqa: BLE001
            return [("%s|raises" % S.last, {"op": op, "exc": repr(e)})]
        return []

    def _sweep(self, g, m, who, last):
        V = self.V
        v = []
        exp = sorted(V.tkeys[t] for t in m)

        class _Stop(Exception):
            pass

        def bad(clause, **kw):
            # one defect shows through many clauses; report the first failing clause of a sweep
            kw["model"] = sorted(m)
            v.append(("%s|%s%s" % (last, who, clause), kw))
            raise _Stop()

        try:
            n = len(g)
            if n != len(m):
                bad("len", got=n)
            lst = sorted(tuple(tkey(x) for x in t) for t in g)
            if lst != exp:
                bad("iter", got=lst)
            for t in V.triples:
                got = (V.pat_terms(t) in g)
                if got != (t in m):
                    bad("contains|" + ("falsy" if is_falsy(t[2]) else "plain"), triple=t, got=got)
            if T(V.foreign) in g:
                bad("contains-foreign")
            for pat in V.patterns:
                got = sorted(tuple(tkey(x) for x in t) for t in g.triples(V.pat_terms(pat)))
                e = sorted(V.tkeys[t] for t in m if V.matches(pat, t))
                if got != e:
                    shape = "".join("x" if x is None else "b" for x in pat)
                    bad("triples|" + shape + ("|falsy-bound" if pat[2] is not None and is_falsy(pat[2]) else ""),
                        pattern=pat, got=got, expected=e)
        except _Stop:
            pass
        except Exception as e:  # noqa: BLE001
            try:
                bad("observation-raises", exc=repr(e))
            except _Stop:
                pass
        return v

    def check(self, S):
        v = self._sweep(S.g, S.m, "", S.last)
        if getattr(S, "left", None) is not None:
            for side, g, m in (("left", S.left, S.left_m), ("right", S.right, S.right_m)):
                if {tuple(tkey(x) for x in t) for t in g} != {self.V.tkeys[t] for t in m}:
                    v.append(("binop|%s-operand-changed-later|after-%s" % (side, S.last), {"expected": sorted(m), "got": sorted(map(repr, g))[:6]}))
        if S.sib is not None and S.sib.store is S.g.store:
            v += self._sweep(S.sib, S.sm, "sibling-", S.last)
        return v

    def key(self, S):
        sib_live = S.sib is not None and S.sib.store is S.g.store
        return (tuple(sorted(S.m)), tuple(sorted(S.sm)) if sib_live else None,
                type(S.g.store).__name__, canon(vars(S.g.store)), canon(vars(S.g)),
                tuple(sorted(S.left_m)) if getattr(S, "left", None) is not None else None)

    def model_key(self, S):
        return (tuple(sorted(S.m)), tuple(sorted(S.sm)))

    def nontrivial(self, before, op, after):
        if before != after:
            return True
        return False


# ---------------------------------------------------------------------------
# iterator / mutation schedules on the default store

MUT_V = Vocab("Lempty")


def sched_mutations():
    out = []
    for t in MUT_V.triples:
        out.append(["add", list(t)])
    for t in MUT_V.triples:
        out.append(["remove", list(t)])
    out.append(["remove", ["A", None, None]])
    out.append(["remove", ["b1", None, None]])
    out.append(["remove", [None, None, None]])
    return out


def run_schedule(base, residue, pat, actions):
    """Execute one schedule. Returns (violation|None, exhausted, nontrivial)."""
    V = MUT_V
    g = Graph(identifier=T("G1"))
    m = set()
    if residue:
        # leave index residue: add then remove a triple not in the base
        for t in V.triples:
            if list(t) not in base:
                g.add(T(t))
                g.remove(T(t))
                break
    for t in base:
        g.add(T(tuple(t)))
        m.add(tuple(t))
    ever = set(m)
    it = g.triples(V.pat_terms(tuple(pat)))
    exhausted = False
    yielded = 0
    nontriv = False
    try:
        for a in actions:
            if a == "n":
                try:
                    t = next(it)
                except StopIteration:
                    exhausted = True
                    break
                yielded += 1
                tk = tuple(tkey(x) for x in t)
                names = [u for u in V.triples if V.tkeys[u] == tk]
                if not names or not V.matches(tuple(pat), names[0]):
                    return (("iterate-while-mutating|yield-does-not-match-pattern", {"yielded": tk}), True, nontriv)
                if names[0] not in ever:
                    return (("iterate-while-mutating|yield-never-in-graph", {"yielded": tk}), True, nontriv)
            else:
                k, arg = a
                arg = tuple(arg)
                if k == "add":
                    g.add(T(arg))
                    m.add(arg)
                    ever.add(arg)
                    touched = V.matches(tuple(pat), arg)
                else:
                    touched = any(V.matches(arg, t) and V.matches(tuple(pat), t) for t in m)
                    g.remove(V.pat_terms(arg))
                    m = {t for t in m if not V.matches(arg, t)}
                if yielded >= 1 and touched:
                    nontriv = True
    except Exception as e:  # noqa: BLE001
        return (("iterate-while-mutating|raises|%s" % type(e).__name__, {"exc": repr(e)}), True, nontriv)
    if exhausted:
        got = sorted(tuple(tkey(x) for x in t) for t in g)
        exp = sorted(V.tkeys[t] for t in m)
        if got != exp or len(g) != len(m):
            return (("iterate-while-mutating|final-content", {"got": got, "expected": exp}), True, nontriv)
    return (None, exhausted, nontriv)


def _explore_sched(base, residue, pat, bound, muts, stats, viols):
    def rec(prefix, used):
        v, exhausted, nontriv = run_schedule(base, residue, pat, prefix)
        if v is not None:
            viols.append({"sig": v[0], "case": {"schedule": [base, residue, list(pat), prefix]}, "detail": v[1]})
            stats[0] += 1
            return
        if exhausted:
            stats[0] += 1
            stats[2 + min(used, 3)] += 1
            if nontriv:
                stats[1] += 1
            return
        rec(prefix + ["n"], used)
        if used < bound:
            for mu in muts:
                rec(prefix + [mu], used + 1)

    rec([], 0)


def _sched_batch(items):
    muts = sched_mutations()
    stats = [0, 0, 0, 0, 0, 0]
    viols = []
    for base, residue, pat, bound in items:
        _explore_sched(base, residue, pat, bound, muts, stats, viols)
    return viols, stats


def run(ctx):
    thorough = ctx.tier == "thorough"
    if thorough:
        # binary operations are terminal (their results are not operated on further) except in the one-subject configuration below: with both
        # operands kept in the state, expanding them over the whole vocabulary does not finish a level within the time budget
        configs = [dict(store="Memory", lit=l, sibling=False, binops=True, expand_binops=False)
                   for l in ("Lempty", "L0", "Lfalse", "L0d", "Lempty_en", "Lempty_s", "Lx_en")]
        configs += [dict(store="Memory", lit=l, binops=True, expand_binops=True, subjects=["A"]) for l in ("L0", "Lempty")]
        configs += [dict(store="SimpleMemory", lit=l, binops=True, expand_binops=False) for l in ("Lempty", "L0", "Lfalse", "Lx_en")]
        configs += [dict(store="Memory", lit="Lempty", sibling=True, binops=False),
                    dict(store="Memory", lit="L0", extra="Lx", binops=False)]
    else:
        configs = [dict(store="Memory", lit="Lempty", binops=True, expand_binops=False),
                   dict(store="Memory", lit="Lx_en", sibling=True, binops=False, subjects=["A"]),
                   dict(store="SimpleMemory", lit="L0", binops=True, expand_binops=False),
                   # binary operations followed by further operations on their result (the operands must stay what they were): on one subject
                   dict(store="Memory", lit="L0", binops=True, expand_binops=True, subjects=["A"])]
    for cfg in configs:
        spec = Spec(**cfg)
        explore.bfs(spec, ctx, max_depth=40, batch=4, time_cap=(240 if thorough else None))
    # schedules
    V = MUT_V
    items = []
    plan = [(1, 3), (2, 2)] if not thorough else [(1, 4), (2, 3), (3, 1)]
    for bound, maxsize in plan:
        for r in range(maxsize + 1):
            for sub in itertools.combinations(V.triples, r):
                base = [list(t) for t in sub]
                for residue in (False, True):
                    for pat in V.patterns:
                        items.append((base, residue, list(pat), bound))
    res = R.pmap(_sched_batch, R.shards(items, ctx.jobs * 8), ctx.jobs)
    tot = [0, 0, 0, 0, 0, 0]
    for viols, st in res:
        ctx.extend(viols)
        for i in range(6):
            tot[i] += st[i]
    ctx.cov["schedules"] = tot[0]
    ctx.cov["schedules_nontrivial"] = tot[1]
    ctx.cov["schedules_by_mutation_count"] = {"0": tot[2], "1": tot[3], "2": tot[4], "3": tot[5]}
    ctx.cov["deviation_bounds_completed"] = ["<=%d mutations interleaved from every base state with <=%d triples" % p for p in plan]
    ctx.cov["exhaustive"] = True
    ctx.cov["rule"] = ("BFS to closure per (store, literal) instance over add(8)/remove(27 patterns)/set(8)/addN(self, equal-id, other)/+=/-=/"
                       "binary + - * ^ with 3 operand graphs (+ sibling-graph mutations on Memory); key = model + canon(vars(store)). "
                       "Schedules: all merges of next() steps of g.triples(pat) (27 patterns) with <= m mutations from 19, from every "
                       "base state (with and without index residue), run to exhaustion. Non-trivial transition: changes the model; "
                       "non-trivial schedule: a mutation touching a pattern-matching triple lands after the first yield.")
    ctx.sample({"schedule": [[["A", "P", "A"], ["A", "P", "Lempty"]], False, ["A", None, None],
                             ["n", ["remove", ["A", None, None]], "n"]]})
    ctx.assumptions += ["vocabulary: 2 subjects x 2 predicates x 2-3 objects per instance; one literal kind per instance",
                        "iteration order abstraction: dict/set insertion order is not part of the state key (schedules are run without de-duplication)"]


def replay(ctx, case):
    if "history" in case:
        h = case["history"]
        _, store, lit, subj = h[0]
        extra = None
        sib = any(op[0].startswith("sib_") for op in h[1:])
        for op in h[1:]:
            for a in op[1:]:
                if isinstance(a, list) and "Lx" in a and lit != "Lx":
                    extra = "Lx"
        spec = Spec(store, lit, extra, sibling=sib, subjects=subj)
        viols = explore.run_history(spec, h)
        return [{"sig": s, "case": case, "detail": d} for s, d in viols]
    base, residue, pat, actions = case["schedule"]
    v, _, _ = run_schedule(base, residue, pat, [a if a == "n" else list(a) for a in actions])
    return [{"sig": v[0], "case": case, "detail": v[1]}] if v else []


META = {
    "text": "Explicit-state model checking of Graph over both in-memory stores: BFS to closure over histories of add, remove with all "
            "27 patterns, set, addN, +=, -= and the binary operators, fingerprinting every store-internal index and context map, with "
            "a Python set as model; every state gets len/iteration/membership/triples(pattern) for all eight shapes compared as "
            "multisets. On the default store all interleavings of open-iterator steps with up to m mutations are executed to completion.",
    "note": "Small scope: 8 (12 in one thorough instance) triples per instance, one falsy/lang literal kind per instance; closure holds "
            "for histories of any length over that vocabulary; single-threaded interleaving only (as the property states). Binary operations: 4 operand sets incl. the empty one, "
            "each also under the left graph's identifier; both operands are kept and re-checked in every later state.",
    "technique": "explicit-state BFS to closure over operation histories + exhaustive iterator/mutation merge enumeration",
}
