"""C05 - parsers read every legal spelling of a graph; N-Triples / N-Quads output is valid.

For a family of graphs / datasets, independent writers (mc/ref/writers.py) render each one in N-Triples,
N-Quads, Turtle, TriG, RDF/XML and JSON-LD under every spelling vector with <= 2 (quick) / <= 3
(thorough) deviations from the plain spelling (quoting styles, escape styles, prefixes, base + relative
IRIs, abbreviations, shorthand, comments, whitespace, blank-node label shapes, XML and JSON-LD
alternatives); rdflib must parse each document to the original graph, through every way of handing the
document to parse(). Conversely rdflib's N-Triples / N-Quads output must be accepted by a strict
implementation of the W3C grammar (validated against the W3C syntax tests) and mean the same graph,
and its XML / JSON outputs must be well-formed.
"""
from __future__ import annotations

import io
import itertools
import json
import os
import re
import tempfile
import xml.parsers.expat

from rdflib import Dataset, Graph

from .. import run as R
from .. import seams
from ..canon import canon_rows, iso
from ..ref import nt_strict, writers as W
from ..rt import B, EX, FIRST, I, L, NIL, REST, dataset_from, dataset_rows, graph_from, graph_rows, rows_of
from . import C03, C06

ID = "C05"
LEVEL = "exploration"

SYNTAXES = {
    "nt": ("nt", W.NT_FLAGS, False),
    "nquads": ("nquads", W.NT_FLAGS, True),
    "turtle": ("turtle", [f for f in W.TTL_FLAGS if not f.startswith("trig-")], False),
    "trig": ("trig", W.TTL_FLAGS, True),
    "xml": ("xml", W.XML_FLAGS, False),
    "json-ld": ("json-ld", W.JSONLD_FLAGS, True),
}
XSDNS = "http://www.w3.org/2001/XMLSchema#"
RDFNS = "http://www.w3.org/1999/02/22-rdf-syntax-ns#"


def graph_family():
    """Descriptor triples lists (C03 conventions)."""
    A, Bn, P, Q = I("a"), I("b"), I("p"), I("q")
    out = []
    lits = [L("x"), L(""), L("a b"), L('"'), L("'"), L("\\"), L("\n"), L("\t"), L("\r"), L("é"), L("\U0001F600"), L('"""'), L("'''"), L("a\nb\"c'd\\e"),
            L("x", lang="en"), L("x", lang="en-us"), L("", lang="en"), L("1", dt=XSDNS + "integer"), L("-5", dt=XSDNS + "integer"), L("1.5", dt=XSDNS + "decimal"),
            L("1.5E0", dt=XSDNS + "double"), L("true", dt=XSDNS + "boolean"), L("x", dt=XSDNS + "string"), L("x", dt=EX + "dt"), L("01", dt=EX + "dt"),
            L("<a>&amp;</a>"), L("]]>"), L(" lead"), L("trail "), L("x\r\ny\rz")]
    for lit in lits:
        out.append([(A, P, lit)])
    out.append([(A, P, lits[0]), (A, P, lits[14]), (A, Q, lits[17])])
    iris = [EX + "dir/doc", EX + "dir/doc#frag", EX + "dir/doc?q=1", EX + "dir/y", EX + "dir/sub/z", EX + "dir/", EX + "top", EX + "dir/a:b", EX + "b#c", EX + "dir/x", EX + "a_b-c", EX + "a(b)", EX + "x%20y", EX + "é", "http://other.org/x", "urn:x:y", EX + "1digit", EX + "end."]
    for u in iris:
        out.append([(["I", u, None, None], P, A)])
        out.append([(A, P, ["I", u, None, None])])
    out.append([(A, ["I", RDFNS + "type", None, None], I("T"))])
    out.append([(A, ["I", RDFNS + "type", None, None], I("T")), (A, P, L("x")), (A, Q, Bn)])
    out.append([(A, P, Bn), (A, P, I("c")), (A, Q, Bn), (Bn, P, A)])
    # rdf:XMLLiteral values in exclusive canonical form (RDF/XML can also spell them as element content: rdf:parseType="Literal")
    for lex in ('<h:b xmlns:h="http://h/">one</h:b> and <h:i xmlns:h="http://h/">two</h:i>', '<ci xmlns="http://m/">a</ci><ci xmlns="http://m/">b</ci>',
                '<h:b xmlns:h="http://h/">x<h:i>y</h:i></h:b>', "just text &amp; more",
                '<h:b xmlns:h="http://h/">1</h:b><k:c xmlns:k="http://k/">2</k:c><h:b xmlns:h="http://h/">3</h:b>'):
        out.append([(A, P, L(lex, dt=RDFNS + "XMLLiteral")), (A, Q, L("x"))])
    # the same local names in two namespaces (for a prefix that is re-declared half way through a document)
    D = lambda n: ["I", EX + "dir/" + n, None, None]  # noqa: E731
    out.append([(A, P, Bn), (A, D("p"), Bn)])
    out.append([(A, P, D("a")), (D("a"), D("p"), A), (Bn, Q, L("x"))])
    # blank-node topologies
    b1, b2 = B("b1"), B("b2")
    out.append([(A, P, b1)])
    out.append([(A, P, b1), (b1, Q, L("x"))])
    out.append([(A, P, b1), (b1, Q, L("x")), (b1, P, Bn)])
    out.append([(b1, P, A)])
    out.append([(b1, P, b2), (b2, P, b1)])
    out.append([(A, P, b1), (Bn, P, b1), (b1, Q, L("x"))])
    out.append([(b1, P, b1)])
    out.append([(A, P, b1), (b1, P, b2), (b2, Q, L("x", lang="en"))])
    # lists
    out.append([(A, P, b1), (b1, FIRST, L("x")), (b1, REST, NIL)])
    out.append([(A, P, b1), (b1, FIRST, A), (b1, REST, b2), (b2, FIRST, Bn), (b2, REST, NIL)])
    out.append([(A, P, b1), (b1, FIRST, L("1", dt=XSDNS + "integer")), (b1, REST, b2), (b2, FIRST, L("", lang="en")), (b2, REST, NIL)])
    out.append([(A, P, NIL)])
    out.append([(b1, FIRST, A), (b1, REST, NIL)])
    out.append([(A, P, b1), (b1, FIRST, A), (b1, REST, b1)])
    # numeric shorthand shapes, escapes \b \f, language tags with digits (appended: earlier indices are referred to by samples)
    for lex, dt in (("+1", "integer"), ("007", "integer"), (".5", "decimal"), ("-0.50", "decimal"), ("1e0", "double"), ("1.E0", "double"), ("-.5E-3", "double"),
                    ("+1.5e+10", "double"), ("false", "boolean")):
        out.append([(A, P, L(lex, dt=XSDNS + dt))])
    out.append([(A, P, L("\b\f"))])
    out.append([(A, P, L("x", lang="de-1996")), (A, P, L("x", lang="de"))])
    # nested blank-node trees and lists inside trees
    b3 = B("b3")
    out.append([(A, P, b1), (b1, P, b2), (b2, P, b3), (b3, Q, L("x"))])
    out.append([(b1, P, b2), (b2, Q, L("x")), (b1, Q, A)])
    out.append([(A, P, b1), (b1, Q, b2), (b2, FIRST, A), (b2, REST, NIL)])
    out.append([(A, P, b1), (b1, FIRST, b2), (b1, REST, NIL), (b2, P, L("x"))])
    out.append([(A, P, b1), (b1, FIRST, b2), (b1, REST, NIL), (b2, FIRST, A), (b2, REST, NIL)])
    out.append([(A, P, b1), (A, Q, b2), (NIL, P, A)])
    # container membership properties, several typed nodes
    li = lambda n: ["I", RDFNS + "_%d" % n, None, None]  # noqa: E731
    TYPE = ["I", RDFNS + "type", None, None]
    out.append([(A, TYPE, ["I", RDFNS + "Seq", None, None]), (A, li(1), L("x")), (A, li(2), Bn), (A, li(3), L("y", lang="en"))])
    out.append([(b1, li(1), A), (b1, li(2), A)])
    out.append([(A, TYPE, I("T")), (A, TYPE, I("U")), (Bn, TYPE, I("T")), (b1, TYPE, I("T")), (A, P, b1), (b1, Q, Bn)])
    return out


def dataset_family():
    out = []
    for quads in list(C06.universe(3))[:: 9]:
        if quads:
            out.append(quads)
    return out


def vectors(flags, maxdev):
    out = [frozenset()]
    for r in range(1, maxdev + 1):
        for c in itertools.combinations(flags, r):
            # mutually exclusive quoting / escaping / prefix choices
            s = set(c)
            if len(s & {"single-quote", "long-quote", "long-single-quote"}) > 1 or len(s & {"uchar", "Uchar", "raw"}) > 1 or \
                    len(s & {"prefix", "sparql-prefix", "empty-prefix"}) > 1 or len(s & {"base", "sparql-base"}) > 1 or len(s & {"file-base", "base", "sparql-base", "relative", "dot-relative"}) > 1 and "file-base" in s or \
                    len(s & {"xml-file-base", "xml-base", "rdf-id"}) > 1 and "xml-file-base" in s or \
                    len(s & {"predicate-list", "semicolons"}) > 1 or len(s & {"anon", "nested-anon"}) > 1:
                continue
            out.append(frozenset(c))
    return out


def render(syntax, rows, flags):
    if syntax == "nt":
        return W.write_nt({r[:3] for r in rows}, flags)
    if syntax == "nquads":
        return W.write_nt(rows, flags, quads=True)
    if syntax == "turtle":
        return W.write_turtle(rows, flags)
    if syntax == "trig":
        return W.write_trig(rows, flags)
    if syntax == "xml":
        return W.write_rdfxml(rows, flags)
    if syntax == "json-ld":
        return W.write_jsonld(rows, flags)
    raise ValueError(syntax)


def parse_doc(doc, fmt, as_dataset, mode, tmpdir):
    tgt = Dataset() if as_dataset else Graph(bind_namespaces="none")
    kw = {"format": fmt}
    if fmt in ("xml", "json-ld", "turtle", "trig"):
        kw["publicID"] = "http://base.invalid/doc"
    if mode == "data-str":
        tgt.parse(data=doc, **kw)
    elif mode == "data-bytes":
        tgt.parse(data=doc.encode("utf-8"), **kw)
    elif mode == "source-bytesio":
        tgt.parse(source=io.BytesIO(doc.encode("utf-8")), **kw)
    elif mode == "source-stringio":
        tgt.parse(source=io.StringIO(doc), **kw)
    elif mode == "file-bytesio":
        tgt.parse(file=io.BytesIO(doc.encode("utf-8")), **kw)
    elif mode == "file-stringio":
        tgt.parse(file=io.StringIO(doc), **kw)
    else:
        path = os.path.join(tmpdir, "doc.%s" % {"nt": "nt", "nquads": "nq", "turtle": "ttl", "trig": "trig", "xml": "rdf", "json-ld": "jsonld"}[fmt])
        with open(path, "w", encoding="utf-8", newline="") as f:
            f.write(doc)
        if mode == "path":
            tgt.parse(path, **kw)
        elif mode == "file-disk-binary":
            with open(path, "rb") as f:
                tgt.parse(file=f, **kw)
        elif mode == "file-disk-text":
            with open(path, "r", encoding="utf-8", newline="") as f:
                tgt.parse(source=f, **kw)
    return dataset_rows(tgt) if as_dataset else {r + (None,) for r in graph_rows(tgt)}


def parse_encoded(doc, fmt, as_dataset, mode, encoding, tmpdir):
    """An XML document in another encoding (named in its XML declaration, or marked by a byte-order mark) handed over as bytes."""
    tgt = Dataset() if as_dataset else Graph(bind_namespaces="none")
    kw = {"format": fmt, "publicID": "http://base.invalid/doc"}
    if encoding == "utf-8-bom":
        data = b"\xef\xbb\xbf" + doc.encode("utf-8")
    else:
        assert doc.startswith('<?xml version="1.0" encoding="utf-8"?>')
        data = doc.replace('encoding="utf-8"', 'encoding="%s"' % encoding, 1).encode(encoding)
    if mode == "data-bytes":
        tgt.parse(data=data, **kw)
    elif mode == "source-bytesio":
        tgt.parse(source=io.BytesIO(data), **kw)
    elif mode == "file-bytesio":
        tgt.parse(file=io.BytesIO(data), **kw)
    else:
        path = os.path.join(tmpdir, "enc.rdf")
        with open(path, "wb") as f:
            f.write(data)
        if mode == "path":
            tgt.parse(path, **kw)
        else:
            with open(path, "rb") as f:
                tgt.parse(file=f, **kw)
    return dataset_rows(tgt) if as_dataset else {r + (None,) for r in graph_rows(tgt)}


ENCODINGS = ["utf-16", "iso-8859-1", "utf-8-bom"]
BYTE_MODES = ["data-bytes", "source-bytesio", "file-bytesio", "path", "file-disk-binary"]
MODES = ["data-str", "data-bytes", "source-bytesio", "source-stringio", "file-bytesio", "file-stringio", "path", "file-disk-binary", "file-disk-text"]


def check_doc(syntax, rows, flags, modes, tmpdir, plain_doc=None):
    fmt, _, quads = SYNTAXES[syntax]
    doc = render(syntax, rows, flags)
    applicable = (plain_doc is None) or (doc != plain_doc)
    want = rows if quads else {r[:3] + (None,) for r in rows}
    viols = []
    dev = "+".join(sorted(flags)) or "plain"
    for mode in modes:
        try:
            with seams.watchdog(20.0):
                got = parse_doc(doc, fmt, quads, mode, tmpdir)
        except Exception as e:  # noqa: BLE001
            sig = "%s|%s|parse-raises|%s" % (syntax, dev, type(e).__name__) if mode == "data-str" else "input-mode|%s|parse-raises|%s" % (mode, type(e).__name__)
            viols.append((sig, {"document": doc[:1500], "exc": repr(e)[:300], "mode": mode}))
            if mode == "data-str":
                break
            continue
        if not iso(got, want):
            sig = "%s|%s|parsed-graph-differs" % (syntax, dev) if mode == "data-str" else "input-mode|%s|%s|parsed-graph-differs-from-str-mode" % (mode, syntax)
            viols.append((sig, {"document": doc[:1500], "parsed": sorted(got, key=repr)[:12], "expected": sorted(want, key=repr)[:12], "mode": mode}))
            if mode == "data-str":
                break
    if syntax == "xml" and not viols and len(modes) > 1 and "no-xml-decl" not in flags:
        for enc in ENCODINGS:
            if enc == "iso-8859-1" and any(ord(c) > 0xFF for c in doc):
                continue
            for mode in BYTE_MODES:
                try:
                    got = parse_encoded(doc, fmt, quads, mode, enc, tmpdir)
                except Exception as e:  # noqa: BLE001
                    viols.append(("input-mode|%s|%s|parse-raises|%s" % (mode, enc, type(e).__name__), {"document": doc[:1500], "exc": repr(e)[:300], "mode": mode, "encoding": enc}))
                    continue
                if not iso(got, want):
                    viols.append(("input-mode|%s|%s|parsed-graph-differs-from-str-mode" % (mode, enc),
                                  {"document": doc[:1500], "parsed": sorted(got, key=repr)[:12], "expected": sorted(want, key=repr)[:12], "mode": mode, "encoding": enc}))
    return viols, doc, applicable


def _batch(arg):
    items, maxdev, all_modes = arg
    viols = []
    n = 0
    nontriv = 0
    tmpdir = tempfile.mkdtemp(prefix="c05_", dir="/var/tmp")
    try:
        for syntax, rows_list in items:
            rows = {tuple(None if x is None else tuple(x) for x in r) for r in rows_list}
            flags_all = SYNTAXES[syntax][1]
            if syntax == "xml" and not W.xml_expressible(rows):
                continue
            plain = render(syntax, rows, frozenset())
            for fl in vectors(flags_all, maxdev):
                # every input mode for the plain spelling and for single deviations, and for raw long strings (their line ends reach the parser unescaped)
                wide = all_modes and (len(fl) <= 1 or set(fl) in ({"raw", "long-quote"}, {"raw", "long-single-quote"}))
                v, doc, applicable = check_doc(syntax, rows, fl, MODES if wide else ["data-str"], tmpdir, plain if fl else None)
                if fl and not applicable:
                    continue
                n += 1
                if fl:
                    nontriv += 1
                for sig, det in v:
                    viols.append({"sig": sig, "detail": det, "case": {"doc": [syntax, [list(map(lambda x: None if x is None else list(x), r)) for r in sorted(rows, key=repr)], sorted(fl)],
                                                                      "mode": det.get("mode", "data-str"), "encoding": det.get("encoding")}})
    finally:
        import shutil
        shutil.rmtree(tmpdir, ignore_errors=True)
    best = {}
    for v in viols:
        if v["sig"] not in best or len(repr(v["case"])) < len(repr(best[v["sig"]]["case"])):
            best[v["sig"]] = v
    return list(best.values()), n, nontriv


# ---- converse: rdflib's own output -------------------------------------------------------------

def output_case(kind, desc):
    """rdflib serialises -> strict reader / well-formedness."""
    viols = []
    if kind == "graph":
        g = graph_from(desc)
        orig = {r + (None,) for r in graph_rows(g)}
        out = g.serialize(format="nt")
        try:
            got = {r + (None,) for r in nt_strict.parse(out)}
            if not iso(got, orig):
                viols.append(("output|nt|strict-reader-reads-a-different-graph", {"output": out[:800]}))
        except SyntaxError as e:
            viols.append(("output|nt|rejected-by-strict-grammar", {"output": out[:800], "error": str(e)[:300]}))
        for fmt in ("xml", "pretty-xml"):
            if not C03.xml_expressible_strict(desc) or any(x[0] == "L" and re.search(r"[\x00-\x08\x0b\x0c\x0e-\x1f]", x[1]) for t in desc for x in t):
                continue  # (XML 1.0 has no spelling for these characters: the graph is outside what RDF/XML can carry)
            o = g.serialize(format=fmt)
            try:
                p = xml.parsers.expat.ParserCreate(namespace_separator=" ")
                p.Parse(o.encode("utf-8"), True)
            except Exception as e:  # noqa: BLE001
                viols.append(("output|%s|not-well-formed-xml" % fmt, {"output": o[:800], "error": repr(e)[:200]}))
        o = g.serialize(format="json-ld")
        try:
            json.loads(o)
        except Exception as e:  # noqa: BLE001
            viols.append(("output|json-ld|not-json", {"output": o[:800], "error": repr(e)[:200]}))
        o = g.serialize(format="hext")
        for line in o.splitlines():
            if line.strip():
                try:
                    assert isinstance(json.loads(line), list)
                except Exception as e:  # noqa: BLE001
                    viols.append(("output|hext|line-not-json", {"line": line[:300], "error": repr(e)[:200]}))
                    break
    else:
        ds = dataset_from(desc)
        orig = dataset_rows(ds)
        out = ds.serialize(format="nquads")
        try:
            got = nt_strict.parse(out, quads=True)
            if not iso(got, orig):
                viols.append(("output|nquads|strict-reader-reads-a-different-dataset", {"output": out[:800]}))
        except SyntaxError as e:
            viols.append(("output|nquads|rejected-by-strict-grammar", {"output": out[:800], "error": str(e)[:300]}))
        o = ds.serialize(format="trix")
        try:
            p = xml.parsers.expat.ParserCreate(namespace_separator=" ")
            p.Parse(o.encode("utf-8"), True)
        except Exception as e:  # noqa: BLE001
            viols.append(("output|trix|not-well-formed-xml", {"output": o[:800], "error": repr(e)[:200]}))
    return viols


def _out_batch(items):
    viols = []
    for kind, desc in items:
        for sig, det in output_case(kind, desc):
            viols.append({"sig": sig, "detail": det, "case": {"output": [kind, [[None if x is None else list(x) for x in t] for t in desc]]}})
    best = {}
    for v in viols:
        if v["sig"] not in best:
            best[v["sig"]] = v
    return list(best.values()), len(items)


def selfcheck_strict_reader():
    """The strict reader must accept every positive and reject every negative W3C N-Triples / N-Quads syntax test."""
    import glob
    bad = []
    n = 0
    for suite, quads, ext in (("ntriples", False, "nt"), ("nquads", True, "nq")):
        for f in sorted(glob.glob("/repo/test/data/suites/w3c/%s/*.%s" % (suite, ext))):
            n += 1
            name = os.path.basename(f)
            try:
                nt_strict.parse(open(f, "rb").read().decode("utf-8"), quads=quads)
                ok = True
            except Exception:  # noqa: BLE001
                ok = False
            if ok == ("-bad-" in name):
                bad.append(name)
    return n, bad


def run(ctx):
    thorough = ctx.tier == "thorough"
    n_w3c, bad = selfcheck_strict_reader()
    if bad:
        raise R.HarnessError("strict N-Triples/N-Quads reader disagrees with the W3C syntax tests: %s" % bad[:5])
    ctx.cov["strict_reader_validated_on_w3c_tests"] = n_w3c
    gf = graph_family()
    df = dataset_family()
    items = []
    for syntax, (fmt, flags, quads) in SYNTAXES.items():
        for g in gf:
            rows = rows_of(g)
            items.append((syntax, [list(r) + [None] for r in rows]))
        if quads:
            for q in df:
                items.append((syntax, [list(r) for r in rows_of(q)]))
    maxdev = int(os.environ.get("VERIF_C05_MAXDEV", 3 if thorough else 2))
    res = R.pmap(_batch, [(sh, maxdev, True) for sh in R.shards(items, ctx.jobs * 8)], ctx.jobs)
    for viols, n, nt in res:
        ctx.extend(viols)
        ctx.add("evaluations", n)
        ctx.add("distinct_nontrivial", nt)
    # converse
    out_items = [("graph", g) for g in gf] + [("graph", [t]) for t in []]
    terms = C03.term_table(2 if thorough else 1, thorough)
    out_items += [("graph", [(I("a"), I("p"), t)]) for t in terms if t[0] == "L"]
    out_items += [("graph", [(t, I("p"), I("a"))]) for t in terms if t[0] == "I"]
    out_items += [("dataset", q) for q in C06.universe(3)]
    res = R.pmap(_out_batch, R.shards(out_items, ctx.jobs * 4), ctx.jobs)
    for viols, n in res:
        ctx.extend(viols)
        ctx.add("evaluations", n)
        ctx.add("output_cases", n)
    ctx.cov["graphs"] = len(gf)
    ctx.cov["datasets"] = len(df)
    ctx.cov["deviation_bound_completed"] = maxdev
    ctx.cov["exhaustive"] = True
    ctx.cov["rule"] = ("%d graphs (literal table with quotes/escapes/line breaks/non-BMP, IRIs, blank-node topologies, lists) and %d datasets x 6 syntaxes x every spelling vector with "
                       "<=%d deviations that changes the document (flags: %s) x (for <=1 deviation) 9 ways of handing the document to parse(); converse: %d graphs/datasets "
                       "serialised by rdflib and read by a strict W3C-grammar reader (validated on %d W3C syntax tests) / expat / json. Non-trivial: >=1 applicable deviation." % (
                           len(gf), len(df), maxdev, {k: len(v[1]) for k, v in SYNTAXES.items()}, len(out_items), n_w3c))
    ctx.sample({"doc": ["turtle", [[list(x) for x in r] for r in sorted(rows_of(gf[13]), key=repr)], ["long-quote"]], "document": render("turtle", {r + (None,) for r in rows_of(gf[13])}, frozenset(["long-quote"]))})
    ctx.assumptions += ["the writers are the author's reading of the W3C grammars; their plain spellings are cross-checked (N-Triples by the strict reader, XML by expat, JSON by json)",
                        "remote JSON-LD contexts and N3-only syntax are not generated; rdf:parseType=Literal only for five hand-written canonical XML fragments"]


def replay(ctx, case):
    if "output" in case:
        kind, desc = case["output"]
        desc = [tuple(None if x is None else list(x) for x in t) for t in desc]
        return [{"sig": s, "case": case, "detail": d} for s, d in output_case(kind, desc)]
    syntax, rows_list, fl = case["doc"]
    rows = {tuple(None if x is None else tuple(x) for x in r) for r in rows_list}
    tmpdir = tempfile.mkdtemp(prefix="c05_", dir="/var/tmp")
    try:
        mode = case.get("mode", "data-str")
        v, _, _ = check_doc(syntax, rows, frozenset(fl), ["data-str"] + ([mode] if mode != "data-str" else []), tmpdir)
        if case.get("encoding"):
            v = [x for x in v if x[1].get("encoding") == case["encoding"] and x[1].get("mode") == mode]
    finally:
        import shutil
        shutil.rmtree(tmpdir, ignore_errors=True)
    return [{"sig": s, "case": case, "detail": d} for s, d in v]


META = {
    "text": "Exhaustive enumeration, up to a deviation bound, of the legal spellings of each graph of a family in six syntaxes, produced by writers written from the W3C "
            "grammars (quoting styles, ECHAR/UCHAR escapes, prefixes and PN_LOCAL escapes, base and relative IRIs, predicate/object lists, [] and () abbreviations, "
            "numeric/boolean shorthand, comments and whitespace, blank-node label shapes, RDF/XML and JSON-LD alternatives): rdflib must parse each to the original graph "
            "through each of nine ways of handing over the document. rdflib's N-Triples/N-Quads output is read by a strict grammar implementation validated on the "
            "W3C syntax tests; XML and JSON outputs are checked for well-formedness.",
    "note": "Deviation bound 2 (quick) / 3 (thorough; 4 was run once, 2.4M documents, clean) over %d N-Triples, %d Turtle/TriG, %d RDF/XML and %d JSON-LD spelling "
            "deviations; ~100 graphs and ~55 datasets; nine input modes for <=1 deviation, XML also as UTF-16 / Latin-1 / UTF-8+BOM bytes; the writers are trusted "
            "only as far as their plain spellings are cross-checked." % (len(W.NT_FLAGS), len(W.TTL_FLAGS), len(W.XML_FLAGS), len(W.JSONLD_FLAGS)),
    "technique": "deviation-bounded exhaustive enumeration of document spellings from independent grammar-based writers, with an isomorphism oracle",
}
