"""C04 - SPARQL graph patterns evaluate to the solution multiset the algebra defines.

Every query whose pattern has <= k operator nodes over a leaf set of canonical BGPs and an expression
menu (comparison, logical incl. three-valued error cases, BOUND, COALESCE, IF, EXISTS / NOT EXISTS),
x every graph with <= 2 triples over a small vocabulary (+ hand-shaped larger graphs, + datasets for
GRAPH), compared as multisets of solution mappings with an independent bottom-up evaluator
(mc/ref/sparql_ref.py). SELECT *, projection, ASK and (slice) CONSTRUCT.
"""
from __future__ import annotations

import itertools
import warnings
from collections import Counter

import rdflib
from rdflib import Dataset, Graph, URIRef
from rdflib.plugins.sparql import prepareQuery

from .. import run as R
from .. import seams
from ..canon import tkey
from ..ref import sparql_ref as S
from ..vocab import T

ID = "C04"
LEVEL = "exploration"

EX = "http://ex.org/"
A, B, P, Q = ("I", EX + "a"), ("I", EX + "b"), ("I", EX + "p"), ("I", EX + "q")
ONE, TWO = S.lit_int(1), S.lit_int(2)
ZERO = S.lit_int(0)  # a falsy term: a binding to it is still a binding (the empty string is left to C15: "" < 2 is an extension point, DESIGN 7)
G1, G2 = ("I", EX + "g1"), ("I", EX + "g2")
X, Y, Z, W, GV = ("var", "x"), ("var", "y"), ("var", "z"), ("var", "w"), ("var", "g")

LEAVES = [
    [(X, P, Y)],
    [(X, Q, Y)],
    [(Y, P, Z)],
    [(X, Q, Z)],
    [(X, P, Y), (Y, P, Z)],
    [(X, P, Y), (X, Q, Z)],
    [(X, P, A)],
    [(A, P, Y)],
    [(X, P, X)],
    [(A, P, B)],
    [(X, Q, ONE)],
]
LEAVES_SMALL = [LEAVES[i] for i in (0, 2, 3, 5, 9)]

FILTERS = [
    ("=", X, Y), ("!=", X, ("const", A)), ("<", Z, ("const", TWO)), ("bound", "z"), ("!", ("bound", "z")),
    ("&&", ("<", Z, ("const", TWO)), ("=", X, ("const", A))), ("||", ("<", Z, ("const", TWO)), ("=", X, ("const", A))),
    ("!", ("&&", ("<", Z, ("const", TWO)), ("!=", X, X))), ("!", ("||", ("<", Z, ("const", TWO)), ("=", X, X))),
    ("!", ("<", Z, ("const", TWO))), ("exists", ("bgp", [(X, Q, W)])), ("notexists", ("bgp", [(Y, P, W)])),
    ("=", ("coalesce", [Z, Y]), ("const", B)), ("=", ("if", ("bound", "z"), Z, X), ("const", A)), ("sameterm", X, Y), ("isiri", Y),
    ("const", S.FALSE), ("const", ZERO),  # constant filters: the expression itself is a falsy term
]
FILTERS_SMALL = [FILTERS[i] for i in (0, 2, 4, 7, 10, 16)]
BINDS = [(("+", Z, ("const", ONE)), "w"), (("coalesce", [Z, X]), "w"), (("if", ("bound", "y"), Y, ("const", A)), "w"), (("const", A), "z")]
VALUES = [(["x"], [(A,)]), (["x"], [(A,), (B,)]), (["x", "z"], [(A, ONE), (B, None)]), (["z"], []), (["y"], [(B,), (B,)]), (["z"], [(ZERO,)])]
PROJECTIONS = [["x"], ["y"], ["x", "z"], ["z"]]


def bgp(i_or_triples):
    return ("bgp", i_or_triples)


def unary(p, small):
    """All ways to put one operator node (without a new pattern operand) on top of p."""
    out = []
    for e in (FILTERS_SMALL if small else FILTERS):
        out.append(("filter", e, p))
    for e, v in BINDS:
        out.append(("bind", p, e, v))
    for vs, rows in VALUES:
        out.append(("values", p, vs, rows))
    out.append(("valuesfirst", p, VALUES[1][0], VALUES[1][1]))
    for vs in PROJECTIONS:
        out.append(("subsel", p, vs, False))
    out.append(("subsel", p, ["x"], True))
    return out


def binary(a, b, small):
    out = [("join", a, b), ("opt", a, b), ("union", a, b), ("minus", a, b)]
    for e in ([FILTERS[0], FILTERS[2], FILTERS[7]] if small else [FILTERS[0], FILTERS[1], FILTERS[2], FILTERS[3], FILTERS[7], FILTERS[9]]):
        out.append(("optf", a, b, e))
    return out


def programs(k, small_leaves=False):
    """All patterns with <= k operator nodes."""
    leaves = [bgp(t) for t in (LEAVES_SMALL if small_leaves else LEAVES)]
    by = {0: leaves}
    for n in range(1, k + 1):
        cur = []
        small = n >= 2 or small_leaves
        for p in by[n - 1]:
            cur += unary(p, small)
        for i in range(0, n):
            j = n - 1 - i
            for a in by[i]:
                for b in by[j]:
                    cur += binary(a, b, small)
        by[n] = [p for p in cur if S.legal(p)]
    out = []
    for n in range(0, k + 1):
        out += by[n]
    return out


# ---- data ---------------------------------------------------------------------

TRIPLE_UNIVERSE = [(s, p, o) for s in (A, B) for p in (P, Q) for o in (A, B, ONE)]

BIG = [
    [(A, P, B), (B, P, A), (A, Q, ONE), (B, Q, TWO)],
    [(A, P, B), (A, P, A), (A, Q, ONE), (A, Q, TWO), (B, P, B)],
    [(A, P, B), (B, P, B), (B, Q, ONE)],
    [(A, P, A), (A, Q, A), (A, Q, ONE), (B, Q, ONE)],
    [(A, P, B), (B, P, A), (B, P, B), (A, Q, B), (B, Q, A)],
    [(A, P, ONE), (A, Q, ONE), (B, Q, TWO), (B, P, A)],
    [(A, Q, ZERO), (B, Q, ONE), (A, P, B), (B, P, ZERO)],
    [(A, Q, ZERO), (A, Q, ONE), (B, Q, ZERO), (A, P, A)],
]


def graphs(full):
    out = [[]]
    for r in (1, 2):
        for sub in itertools.combinations(TRIPLE_UNIVERSE, r):
            out.append(list(sub))
    if not full:
        out = out[:1] + out[1:13] + out[13::4]
    return out + BIG


def datasets():
    """(default triples, {name: triples}) distributions for GRAPH tests."""
    t1, t2, t3, t4 = (A, P, B), (B, P, A), (A, Q, ONE), (A, P, G1)  # t4: a graph name as a term inside a graph (its own, and another)
    out = []
    for d, n1, n2 in itertools.product(range(4), range(8), range(8)):
        default = [t for i, t in enumerate((t1, t2)) if d >> i & 1]
        g1 = [t for i, t in enumerate((t1, t3, t4)) if n1 >> i & 1]
        g2 = [t for i, t in enumerate((t2, t3, t4)) if n2 >> i & 1]
        if len(default) + len(g1) + len(g2) <= 3:
            out.append(["ds", default, [[G1, g1], [G2, g2]]])
    return out


def mkterm(k):
    if k[0] == "I":
        return URIRef(k[1])
    return rdflib.Literal(k[1], datatype=None if k[2] is None else URIRef(k[2]), lang=k[3])


def build_graph(triples):
    g = Graph(bind_namespaces="none")
    for t in triples:
        g.add(tuple(mkterm(x) for x in t))
    return g


def build_dataset(default, named, default_union=False):
    ds = Dataset(default_union=default_union)
    for t in default:
        ds.add(tuple(mkterm(x) for x in t))
    for n, ts in named.items():
        gg = ds.graph(mkterm(n))
        for t in ts:
            gg.add(tuple(mkterm(x) for x in t))
    return ds


def multiset(rows):
    return Counter(frozenset(m.items()) for m in rows)


def rdflib_rows(res):
    return Counter(frozenset((str(v), tkey(t)) for v, t in b.items() if t is not None) for b in res.bindings)


# ---- signatures -----------------------------------------------------------------

def skeleton(p):
    """Operator skeleton with leaves abstracted (for signatures)."""
    t = p[0]
    if t == "bgp":
        return "B"
    if t in ("join", "opt", "union", "minus"):
        return "%s(%s,%s)" % (t, skeleton(p[1]), skeleton(p[2]))
    if t == "optf":
        return "optf(%s,%s)" % (skeleton(p[1]), skeleton(p[2]))
    if t == "filter":
        return "filter[%s](%s)" % (expr_kind(p[1]), skeleton(p[2]))
    if t == "bind":
        return "bind(%s)" % skeleton(p[1])
    if t in ("values", "valuesfirst"):
        return "%s(%s)" % (t, skeleton(p[1]))
    if t == "subsel":
        return "subsel(%s)" % skeleton(p[1])
    if t == "graph":
        return "graph[%s](%s)" % ("var" if S.is_var(p[1]) else "iri", skeleton(p[2]))
    return t


def _contains(p, names):
    if isinstance(p, tuple):
        if p and p[0] in names:
            return True
        return any(_contains(x, names) for x in p[1:] if isinstance(x, tuple))
    return False


def site_class(p):
    """Known call-site classes: a violation whose pattern falls in one of them gets the class as its signature."""
    def rec(n):
        if isinstance(n, tuple) and n:
            if n[0] in ("opt", "optf") and _contains(n[1], ("values", "valuesfirst")):
                return "optional-whose-left-operand-contains-VALUES"
            for x in n[1:]:
                if isinstance(x, tuple):
                    r = rec(x)
                    if r:
                        return r
        return None
    return rec(p)


def expr_kind(e):
    t = e[0]
    if t in ("exists", "notexists"):
        return t
    if t in ("&&", "||", "!"):
        inner = [expr_kind(x) for x in e[1:] if isinstance(x, tuple) and x and x[0] in ("&&", "||", "!", "<", "=", "!=", "bound")]
        return t + ("(" + ",".join(inner) + ")" if inner else "")
    return t


def check_query(pat, forms, data, union_switch=False, horizon=20.0):
    """Evaluate one pattern in the given query forms over a list of data items. Returns (viols, evals, nontrivial)."""
    viols = []
    text_inner = S.inner(pat)
    vars_all = sorted(S.scope(pat))
    evals = 0
    nontriv = False
    prepared = {}
    for form in forms:
        if form == "select*":
            q = "SELECT * WHERE { %s }" % text_inner
        elif form == "ask":
            q = "ASK { %s }" % text_inner
        elif form.startswith("select:"):
            q = "SELECT %s WHERE { %s }" % (form[7:], text_inner)
        try:
            prepared[form] = (q, prepareQuery(q))
        except Exception as e:  # noqa: BLE001
            viols.append({"sig": "parse-or-translate-raises|%s" % skeleton(pat), "detail": {"query": q, "exc": repr(e)[:300]},
                          "case": {"pattern": pat, "form": form, "data": None}})
    for di, item in enumerate(data):
        if item and item[0] == "ds":
            default, named = item[1], {tuple(n): ts for n, ts in item[2]}
            refds = S.Dataset(default, named)
            # union switch on <-> Dataset(default_union=True); the mixed combinations are not demanded (DESIGN 7)
            target = build_dataset(default, named, default_union=union_switch)
        else:
            refds = S.Dataset(item)
            target = build_graph(item)
        ev = S.Evaluator(refds, default_union=union_switch)
        want_rows = ev.pattern(pat)
        if want_rows:
            nontriv = True
        want = multiset(want_rows)
        for form, (q, pq) in prepared.items():
            evals += 1
            try:
                with seams.watchdog(horizon), seams.sparql_union(union_switch), warnings.catch_warnings():
                    warnings.simplefilter("ignore")
                    res = target.query(pq)
                    if form == "ask":
                        got = bool(res.askAnswer)
                    else:
                        got = rdflib_rows(res)
                        gotvars = [str(v) for v in (res.vars or [])]
            except Exception as e:  # noqa: BLE001
                viols.append({"sig": "evaluation-raises|%s|%s" % (type(e).__name__, skeleton(pat)), "detail": {"query": q, "exc": repr(e)[:300]},
                              "case": {"pattern": pat, "form": form, "data": item, "union": union_switch}})
                continue
            if form == "ask":
                if got != bool(want_rows):
                    viols.append({"sig": "ask-differs|%s" % (site_class(pat) or skeleton(pat)), "detail": {"query": q, "got": got, "expected": bool(want_rows)},
                                  "case": {"pattern": pat, "form": form, "data": item, "union": union_switch}})
                continue
            if form == "select*":
                exp = want
                expvars = vars_all
            else:
                pv = [v[1:] for v in form[7:].split()]
                exp = Counter()
                for k, n in want.items():
                    exp[frozenset((a, b) for a, b in k if a in pv)] += n
                expvars = pv
            if got != exp:
                extra = sum((got - exp).values())
                missing = sum((exp - got).values())
                kind = "rows-missing" if missing and not extra else "rows-extra" if extra and not missing else "rows-differ"
                if set(got) == set(exp):
                    kind = "multiplicity-differs"
                viols.append({"sig": "%s|%s" % (kind, site_class(pat) or skeleton(pat)),
                              "detail": {"query": q, "got": sorted(map(repr, got.elements())), "expected": sorted(map(repr, exp.elements()))},
                              "case": {"pattern": pat, "form": form, "data": item, "union": union_switch}})
            elif sorted(gotvars) != sorted(expvars) and form != "select*":
                viols.append({"sig": "vars-differ|%s" % skeleton(pat), "detail": {"query": q, "got": gotvars, "expected": expvars},
                              "case": {"pattern": pat, "form": form, "data": item, "union": union_switch}})
    return viols, evals, nontriv


def _batch(arg):
    pats, forms, data, union_switch = arg
    viols = []
    evals = 0
    nontriv = 0
    for pat in pats:
        v, n, nt = check_query(pat, forms, data, union_switch)
        # keep the smallest witness per signature within this batch
        viols += v
        evals += n
        nontriv += 1 if nt else 0
    best = {}
    for v in viols:
        k = v["sig"]
        if k not in best or len(repr(v["case"])) < len(repr(best[k]["case"])):
            best[k] = v
    counts = Counter(v["sig"] for v in viols)
    return list(best.values()), evals, nontriv, counts, len(pats)


def graph_programs(thorough):
    """GRAPH patterns over datasets."""
    out = []
    inner_ps = [bgp(LEAVES[0]), bgp(LEAVES[1]), ("opt", bgp(LEAVES[0]), bgp(LEAVES[2])), ("filter", FILTERS[0], bgp(LEAVES[0])),
                ("union", bgp(LEAVES[0]), bgp(LEAVES[1]))]
    # the graph variable itself inside the group: it joins with the graph's name afterwards and is not in scope while the group is evaluated
    inner_g = [bgp([(X, P, GV)]), ("minus", bgp(LEAVES[0]), bgp([(X, P, GV)])), ("filter", ("!", ("bound", "g")), bgp(LEAVES[0])),
               ("filter", ("=", GV, ("const", G1)), bgp(LEAVES[0])), ("join", bgp(LEAVES[0]), ("subsel", bgp([(X, P, GV)]), ["x"], False)),
               ("opt", bgp(LEAVES[0]), bgp([(Y, P, GV)])), ("bind", bgp(LEAVES[0]), ("coalesce", [GV, ("const", A)]), "w"),
               ("optf", bgp(LEAVES[0]), bgp([(X, Q, Z)]), ("!", ("bound", "g"))), ("filter", ("notexists", ("bgp", [(X, P, GV)])), bgp(LEAVES[0]))]
    for ip in inner_g:
        gp = ("graph", GV, ip)
        out.append(gp)
        out.append(("join", bgp(LEAVES[0]), gp))
        out.append(("opt", bgp(LEAVES[0]), gp))
    if thorough:
        for ip in programs(1, small_leaves=True):
            for name in (G1, GV):
                out.append(("graph", name, ip))
                out.append(("join", bgp(LEAVES[1]), ("graph", name, ip)))
    for ip in inner_ps:
        for name in (G1, GV):
            gp = ("graph", name, ip)
            out.append(gp)
            out.append(("join", bgp(LEAVES[0]), gp))
            out.append(("opt", bgp(LEAVES[0]), gp))
            out.append(("union", gp, bgp(LEAVES[1])))
            out.append(("minus", bgp(LEAVES[0]), gp))
            out.append(("filter", ("=", GV, ("const", G1)), gp) if name is GV else ("filter", FILTERS[0], gp))
    out.append(("graph", GV, ("graph", G1, bgp(LEAVES[0]))))
    out.append(("graph", ("I", EX + "missing"), bgp(LEAVES[0])))
    return [p for p in out if S.legal(p)]


def run(ctx):
    thorough = ctx.tier == "thorough"
    data = graphs(full=False)
    progs = programs(2, small_leaves=False) if thorough else programs(1) + programs(2, small_leaves=True)
    # de-duplicate
    seen = set()
    uniq = []
    for p in progs:
        r = repr(p)
        if r not in seen:
            seen.add(r)
            uniq.append(p)
    progs = uniq
    forms = ["select*", "ask", "select:?x ?z"] if not thorough else ["select*", "select:?x"]
    work = [(sh, forms, data, False) for sh in R.shards(progs, ctx.jobs * 16)]
    gp = graph_programs(thorough)
    dsets = datasets()
    for union_switch in (False, True):
        for sh in R.shards(gp, ctx.jobs):
            work.append((sh, ["select*", "ask"], dsets, union_switch))
    res = R.pmap(_batch, work, ctx.jobs)
    counts = Counter()
    nprog = 0
    for viols, evals, nt, cnt, npat in res:
        ctx.extend(viols)
        ctx.add("evaluations", evals)
        ctx.add("distinct_nontrivial", nt)
        counts.update(cnt)
        nprog += npat
    ctx.cov["queries"] = nprog
    ctx.cov["graphs"] = len(data)
    ctx.cov["datasets"] = len(dsets)
    ctx.cov["violating_evaluations_by_signature"] = dict(counts.most_common(40))
    ctx.cov["exhaustive"] = True
    ctx.cov["rule"] = ("all patterns with <= %s operator nodes over %d canonical BGP leaves (join, OPTIONAL with/without filter, UNION, MINUS, FILTER over %d expressions "
                       "incl. three-valued error cases / EXISTS / NOT EXISTS / COALESCE / IF, BIND, VALUES with UNDEF, sub-SELECT with projection/DISTINCT), each "
                       "as SELECT *, two projections and ASK, on %d graphs (every graph with <=2 triples over {a,b}x{p,q}x{a,b,1} + larger hand-shaped ones); GRAPH "
                       "<iri>/?g patterns on %d datasets with the default-graph-union switch off and on. Oracle: independent bottom-up multiset evaluator. "
                       "distinct_nontrivial = queries with a non-empty reference answer on >= 1 graph." % (
                           "2" if thorough else "1 (all leaves) / 2 (5 leaves)", len(LEAVES), len(FILTERS), len(data), len(dsets)))
    ctx.sample({"query": "SELECT * WHERE { %s }" % S.inner(progs[len(progs) // 2])})
    ctx.assumptions += ["comparisons only between operand kinds whose outcome the Recommendation fixes (numeric-numeric, IRI against anything, unbound -> error); "
                        "EXISTS only over basic graph patterns; no blank nodes in data or templates",
                        "the reference evaluator is validated by hand-written self-tests (selftest/) and by agreement with rdflib outside a small set of call sites"]


def _detuple(x):
    if isinstance(x, list):
        return tuple(_detuple(y) for y in x) if not (x and x[0] in ("bgp",)) else ("bgp", [tuple(_detuple(z) for z in tr) for tr in x[1]])
    return x


def _fix(p):
    """JSON round trip turns tuples into lists: rebuild the AST."""
    if isinstance(p, list):
        if p and p[0] == "bgp":
            return ("bgp", [tuple(_fix(x) for x in tr) for tr in p[1]])
        if p and p[0] in ("values", "valuesfirst"):
            return (p[0], _fix(p[1]), list(p[2]), [tuple(None if x is None else _fix(x) for x in row) for row in p[3]])
        if p and p[0] == "subsel":
            return ("subsel", _fix(p[1]), list(p[2]), bool(p[3]) if len(p) > 3 else False)
        if p and p[0] == "coalesce":
            return ("coalesce", [_fix(x) for x in p[1]])
        return tuple(_fix(x) for x in p)
    return p


def replay(ctx, case):
    pat = _fix(case["pattern"])
    data = case["data"]
    if data is None:
        item = []
    elif data and data[0] == "ds":
        item = ["ds", [tuple(_fix(x) for x in t) for t in data[1]], [[_fix(n), [tuple(_fix(x) for x in t) for t in ts]] for n, ts in data[2]]]
    else:
        item = [tuple(_fix(x) for x in t) for t in data]
    v, _, _ = check_query(pat, [case["form"]], [item], case.get("union", False), horizon=60.0)
    return [{"sig": x["sig"], "case": case, "detail": x["detail"]} for x in v]


META = {
    "text": "Exhaustive enumeration of a bounded query grammar (all patterns with <=1 operator over 11 BGP leaves and <=2 operators over 5 leaves in the quick tier, "
            "<=2 over all leaves in the thorough tier; operators: join of groups, OPTIONAL with and without FILTER, UNION, MINUS, FILTER over an expression menu with "
            "three-valued error cases, EXISTS/NOT EXISTS, BIND, VALUES with UNDEF, sub-SELECT, GRAPH) times a complete family of small graphs and datasets; the "
            "multiset of solutions returned by rdflib (SELECT *, projections, ASK) is compared with an independent bottom-up SPARQL 1.1 algebra evaluator.",
    "note": "Small scope: 3-4 variables, 2 predicates, 3 node terms, <=2 triples (+6 larger graphs); constructs whose semantics the Recommendation leaves open are "
            "not generated; no blank nodes; CONSTRUCT checked in C10/C13 only through templates.",
    "technique": "exhaustive enumeration of a bounded query grammar x graph family against an independent SPARQL algebra evaluator",
}
