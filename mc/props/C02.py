"""C02 - Dataset keeps named graphs isolated; the union view is the union of its graphs.

BFS to closure over histories of quad add / remove / remove-by-pattern / graph creation / graph
removal through the container (Dataset with default_union off/on, ConjunctiveGraph) and through
independently obtained Graph views on the same Memory store; model = dict name -> set, plus the
set of known graph names. Full observation sweep in every state.
"""
from __future__ import annotations

import warnings

from rdflib import ConjunctiveGraph, Dataset, Graph
from rdflib.graph import DATASET_DEFAULT_GRAPH_ID
from rdflib.plugins.stores.memory import Memory

from .. import explore, seams
from ..canon import canon, tkey
from ..vocab import T

ID = "C02"
LEVEL = "model_checking"

TRIPLES = {"t0": ("A", "P", "B"), "t1": ("A", "P", "Lempty"), "t2": ("B", "Q", "A")}
PATTERNS = {"t0": TRIPLES["t0"], "t1": TRIPLES["t1"], "S": ("A", None, None), "O": (None, None, "Lempty"),
            "ALL": (None, None, None)}
NAMED = ["G1", "GB"]
UNKNOWN = "G3"


def _match(pat, tname):
    return all(p is None or p == x for p, x in zip(PATTERNS[pat], TRIPLES[tname]))


class State:
    pass


class Spec:
    def __init__(self, kind, triples=("t0", "t1")):
        self.kind = kind  # ds | ds_union | cg
        self.tn = list(triples)
        self.name = "container(%s,triples=%s)" % (kind, self.tn)

    def initials(self):
        return [["init", self.kind, self.tn]]

    # -- name handling
    def ident(self, S, n):
        if n == "D":
            return S.default_id
        return T(n)

    def build(self, init):
        seams.reset_bnode_counter()
        S = State()
        S.store = Memory()
        with warnings.catch_warnings():
            warnings.simplefilter("ignore")
            if self.kind == "cg":
                S.c = ConjunctiveGraph(S.store, identifier=T("b4"))
                S.default_id = T("b4")
            else:
                S.c = Dataset(S.store, default_union=(self.kind == "ds_union"))
                S.default_id = DATASET_DEFAULT_GRAPH_ID
        S.m = {"D": set(), "G1": set(), "GB": set(), UNKNOWN: set()}
        S.known = {"D"}
        S.old_views = {n: Graph(S.store, self.ident(S, n), bind_namespaces="none") for n in ["D"] + NAMED + [UNKNOWN]}
        S.last = "init"
        return S

    def ops(self, S):
        out = []
        for t in self.tn:
            for n in ["D"] + NAMED:
                out.append(["add_id", t, n])
                out.append(["add_view", t, n])
            for n in NAMED:
                out.append(["add_graphobj", t, n])
            out.append(["add_triple", t])
        out.append(["addN", [["t0", "G1"], ["t1", "GB"]]])
        out.append(["addN", [["t1", "G1"], ["t1", "D"]]])
        out.append(["addN", [["t0", "G1"], ["t1", "GB"], ["t0", "G1"], ["t0", "D"], ["t1", "G1"]]])  # one quad twice, graphs interleaved
        for pat in (["t0", "t1", "S", "ALL"] + (["O"] if len(self.tn) > 2 else [])):
            for n in [None, "D"] + NAMED + [UNKNOWN]:
                out.append(["remove", pat, n])
            for n in ["D"] + NAMED:
                out.append(["remove_view", pat, n])
        for n in NAMED:
            out.append(["graph", n])
        for n in ["D"] + NAMED + [UNKNOWN]:
            out.append(["remove_graph", n, "id"])
            out.append(["remove_graph", n, "graph"])
        return out

    def apply(self, S, op):
        k = op[0]
        S.last = k
        c = S.c
        try:
            with warnings.catch_warnings():
                warnings.simplefilter("ignore")
                if k == "add_id":
                    t, n = op[1], op[2]
                    c.add(T(TRIPLES[t]) + (self.ident(S, n),))
                    S.m[n].add(t)
                    S.known.add(n)
                elif k == "add_view":
                    t, n = op[1], op[2]
                    Graph(S.store, self.ident(S, n), bind_namespaces="none").add(T(TRIPLES[t]))
                    S.m[n].add(t)
                    S.known.add(n)
                elif k == "add_graphobj":
                    t, n = op[1], op[2]
                    g = c.graph(T(n)) if self.kind != "cg" else c.get_context(T(n))
                    if self.kind != "cg":
                        S.known.add(n)
                    c.add(T(TRIPLES[t]) + (g,))
                    S.m[n].add(t)
                    S.known.add(n)
                elif k == "add_triple":
                    c.add(T(TRIPLES[op[1]]))
                    S.m["D"].add(op[1])
                elif k == "addN":
                    quads = []
                    for t, n in op[1]:
                        quads.append(T(TRIPLES[t]) + (Graph(S.store, self.ident(S, n), bind_namespaces="none"),))
                        S.m[n].add(t)
                        S.known.add(n)
                    c.addN(quads)
                elif k == "remove":
                    pat, n = op[1], op[2]
                    S.last = "remove:%s:%s" % ("pattern" if pat not in TRIPLES else "exact",
                                               "all-graphs" if n is None else "unknown-graph" if n == UNKNOWN else
                                               "default" if n == "D" else "named")
                    if n is None:
                        c.remove(T(PATTERNS[pat]))
                        for g in S.m:
                            S.m[g] = {t for t in S.m[g] if not _match(pat, t)}
                    else:
                        c.remove(T(PATTERNS[pat]) + (self.ident(S, n),))
                        S.m[n] = {t for t in S.m[n] if not _match(pat, t)}
                elif k == "remove_view":
                    pat, n = op[1], op[2]
                    Graph(S.store, self.ident(S, n), bind_namespaces="none").remove(T(PATTERNS[pat]))
                    S.m[n] = {t for t in S.m[n] if not _match(pat, t)}
                elif k == "graph":
                    n = op[1]
                    if self.kind == "cg":
                        c.get_context(T(n))
                    else:
                        c.graph(T(n))
                        S.known.add(n)
                elif k == "remove_graph":
                    n, how = op[1], op[2]
                    S.last = "remove_graph:%s" % ("default" if n == "D" else "unknown" if n == UNKNOWN else "named")
                    arg = self.ident(S, n) if how == "id" else Graph(S.store, self.ident(S, n), bind_namespaces="none")
                    if self.kind == "cg":
                        c.remove_context(arg if how == "graph" else c.get_context(arg))
                    else:
                        c.remove_graph(arg)
                        if n != "D":
                            S.known.discard(n)
                    S.m[n] = set()
        except Exception as e:  # noqa: BLE001
            return [("%s|raises" % S.last, {"op": op, "exc": repr(e)})]
        return []

    def _spell(self, S, ck):
        """Map an observed graph key to a model name (default accepted as None or the default id)."""
        if ck is None or ck == tkey(S.default_id):
            return "D"
        for n in NAMED + [UNKNOWN]:
            if ck == tkey(T(n)):
                return n
        return ("?", ck)

    def check(self, S):
        c = S.c
        v = []
        last = S.last
        union = self.kind in ("ds_union", "cg")

        class _Stop(Exception):
            pass

        def bad(clause, **kw):
            kw["model"] = {n: sorted(x) for n, x in S.m.items() if x}
            kw["known"] = sorted(S.known)
            v.append(("%s|%s" % (last, clause), kw))
            raise _Stop()

        def tk(t):
            return tuple(tkey(x) for x in t)

        tkeys = {t: tk(T(TRIPLES[t])) for t in self.tn}
        try:
            with warnings.catch_warnings():
                warnings.simplefilter("ignore")
                # quads()
                got = set()
                for s, p, o, g in c.quads((None, None, None, None)):
                    gid = g.identifier if isinstance(g, Graph) else g
                    got.add((tk((s, p, o)), self._spell(S, tkey(gid))))
                exp = {(tkeys[t], n) for n in S.m for t in S.m[n]}
                if got != exp:
                    bad("quads", got=sorted(map(str, got)), expected=sorted(map(str, exp)))
                # graphs()
                if self.kind == "cg":
                    names = {self._spell(S, tkey(g.identifier)) for g in c.contexts()}
                    nonempty = {n for n in S.m if S.m[n]}
                    if not (nonempty <= names):
                        bad("contexts-misses-nonempty-graph", got=sorted(map(str, names)))
                    if not (names <= S.known | {"D"}):
                        bad("contexts-lists-forgotten-graph", got=sorted(map(str, names)))
                else:
                    lst = [self._spell(S, tkey(g.identifier)) for g in c.graphs()]
                    if len(lst) != len(set(lst)):
                        bad("graphs-duplicates", got=list(map(str, lst)))
                    if set(lst) != S.known:
                        bad("graphs", got=sorted(map(str, lst)))
                # per-graph views, old and fresh
                for n in ["D"] + NAMED + [UNKNOWN]:
                    e = sorted(tkeys[t] for t in S.m[n])
                    for which, view in (("old", S.old_views[n]),
                                        ("fresh", Graph(S.store, self.ident(S, n), bind_namespaces="none"))):
                        g = sorted(tk(t) for t in view)
                        if g != e or len(view) != len(e):
                            bad("view-%s|%s" % (which, "default" if n == "D" else "named"), graph=n, got=g, len=len(view))
                    # quads restricted to a graph
                    # quads restricted to a graph: every row is a true quad of the model, the rows naming
                    # this graph are exactly its triples, and an empty/unknown graph yields nothing
                    rows = [(tk(q[:3]), self._spell(S, tkey(q[3].identifier if isinstance(q[3], Graph) else q[3])))
                            for q in c.quads((None, None, None, self.ident(S, n)))]
                    if not (union and n == "D"):
                        if not e and rows:
                            bad("quads-restricted|empty-or-unknown-graph-yields-rows", graph=n, got=rows)
                        if any(r not in exp for r in rows):
                            bad("quads-restricted|row-not-in-dataset", graph=n, got=rows)
                        if sorted(r[0] for r in rows if r[1] == n) != e:
                            bad("quads-restricted|own-rows-differ", graph=n, got=rows)
                # membership of quads, graph given as identifier and as Graph
                for n in ["D"] + NAMED + [UNKNOWN]:
                    if union and n == "D":
                        continue  # aliased to the union by design; not demanded (DESIGN 7)
                    state = "empty" if not S.m[n] else "nonempty"
                    if n == UNKNOWN:
                        state = "unknown"
                    for t in self.tn:
                        e = t in S.m[n]
                        q1 = T(TRIPLES[t]) + (self.ident(S, n),)
                        q2 = T(TRIPLES[t]) + (Graph(S.store, self.ident(S, n), bind_namespaces="none"),)
                        if (q1 in c) != e:
                            bad("quad-in-by-identifier|%s-graph" % state, graph=n, triple=t, got=(q1 in c))
                        if (q2 in c) != e:
                            bad("quad-in-by-graph|%s-graph" % state, graph=n, triple=t, got=(q2 in c))
                    for pat in ("ALL", "S"):
                        e = sorted(tkeys[t] for t in S.m[n] if _match(pat, t))
                        g1 = sorted(tk(t) for t in c.triples(T(PATTERNS[pat]), context=S.old_views[n]))
                        if g1 != e:
                            bad("triples-context-kw|%s-graph" % state, graph=n, pattern=pat, got=g1, expected=e)
                        g2 = sorted(tk(t) for t in c.triples(T(PATTERNS[pat]) + (self.ident(S, n),)))
                        if g2 != e:
                            bad("triples-quad-pattern|%s-graph" % state, graph=n, pattern=pat, got=g2, expected=e)
                # merged / default view
                allk = set()
                for n in S.m:
                    allk |= {tkeys[t] for t in S.m[n]}
                e = sorted(allk) if union else sorted(tkeys[t] for t in S.m["D"])
                g = sorted(tk(t) for t in c.triples((None, None, None)))
                if g != e:
                    bad("plain-triples|%s" % ("union" if union else "default-only"), got=g, expected=e)
                for t in self.tn:
                    if (T(TRIPLES[t]) in c) != (tkeys[t] in set(e)):
                        bad("triple-in|%s" % ("union" if union else "default-only"), triple=t)
        except _Stop:
            pass
        except Exception as e:  # noqa: BLE001
            try:
                bad("observation-raises", exc=repr(e))
            except _Stop:
                pass
        return v

    def key(self, S):
        return (tuple((n, tuple(sorted(S.m[n]))) for n in sorted(S.m)), tuple(sorted(S.known)), canon(vars(S.store)),
                canon(vars(S.c)), canon({n: vars(g) for n, g in S.old_views.items()}))

    def model_key(self, S):
        return (tuple((n, tuple(sorted(S.m[n]))) for n in sorted(S.m)), tuple(sorted(S.known)))

    def nontrivial(self, before, op, after):
        if before != after:
            return True
        # addresses an empty / unknown graph
        m = dict(before[0])
        n = op[2] if len(op) > 2 and isinstance(op[2], str) else (op[1] if op[0] in ("remove_graph", "graph") else None)
        return n in m and not m[n]


def run(ctx):
    thorough = ctx.tier == "thorough"
    for kind in ("ds", "ds_union", "cg"):
        spec = Spec(kind, ("t0", "t1", "t2") if thorough and kind != "cg" else ("t0", "t1"))
        explore.bfs(spec, ctx, max_depth=40, batch=4)
    ctx.cov["exhaustive"] = True
    ctx.cov["rule"] = ("BFS to closure per container kind (Dataset default_union off/on, ConjunctiveGraph) over add (graph as identifier, "
                       "as ds.graph() object, through a view, default), addN, remove (exact/pattern x graph in {none, default, G1, "
                       "blank-node-named, unknown}), the same through views, graph(), remove_graph (id / Graph; default, named, unknown); "
                       "key = model + known names + canon(vars(store)). Non-trivial: changes the model or addresses an empty/unknown graph.")
    ctx.assumptions += ["Memory store only (the only graph-aware store shipped besides BerkeleyDB)",
                        "with default_union, reads restricted explicitly to the default graph are not observed (aliased to the union by design)",
                        "ConjunctiveGraph.contexts() is only required to lie between the non-empty graphs and the known graphs"]


def replay(ctx, case):
    h = case["history"]
    spec = Spec(h[0][1], tuple(h[0][2]))
    viols = explore.run_history(spec, h)
    return [{"sig": s, "case": case, "detail": d} for s, d in viols]


META = {
    "text": "Explicit-state model checking of Dataset (default_union off and on) and ConjunctiveGraph over the Memory store: BFS to closure "
            "over histories of quad adds (every way of naming the graph), removes by pattern with and without a graph, graph creation and "
            "remove_graph, issued through the container and through independent Graph views; every state is observed through quads(), "
            "graphs(), old and fresh views, quad membership (graph as identifier and as Graph), triples restricted to each graph incl. "
            "empty and unknown ones, and the plain/merged view, against a dict-of-sets model.",
    "note": "Small scope: 2-3 triples (one with a falsy object) x {default, IRI-named, blank-node-named} + one never-created name; closure over "
            "that vocabulary. With default_union on, reads restricted explicitly to the default graph are not demanded.",
    "technique": "explicit-state BFS to closure over quad/graph histories of the real containers vs a dict-of-sets model",
}
