"""C10 - SPARQL Update changes the dataset exactly as the Update semantics prescribe.

Requests (sequences of <= 2 operations joined by ';') over an operation alphabet (INSERT/DELETE DATA,
DELETE WHERE, DELETE/INSERT..WHERE with WITH / USING / GRAPH templates incl. overlapping delete/insert
across solutions, unbound and illegal template terms, fresh blank nodes; CLEAR / DROP; ADD / MOVE / COPY
incl. source = target and missing graphs) applied to every distribution of two triples over
{default, G1, G2}, through Graph, ConjunctiveGraph and Dataset with the default-graph-union switch on
and off. Reference: WHERE by the C04 evaluator on the pre-state, all deletions then all insertions.
"""
from __future__ import annotations

import itertools
import warnings

import rdflib
from rdflib import BNode, ConjunctiveGraph, Dataset, Graph, Literal, URIRef
from rdflib.graph import DATASET_DEFAULT_GRAPH_ID

from .. import run as R
from .. import seams
from ..canon import iso, tkey
from ..ref import sparql_ref as S

ID = "C10"
LEVEL = "model_checking"

EX = "http://ex.org/"
A, B, P, Q = ("I", EX + "a"), ("I", EX + "b"), ("I", EX + "p"), ("I", EX + "q")
G1, G2, GM = ("I", EX + "g1"), ("I", EX + "g2"), ("I", EX + "missing")
LIT = ("L", "lit", None, None)
X, Y, Z, GV = ("var", "x"), ("var", "y"), ("var", "z"), ("var", "g")
T1, T2 = (A, P, B), (B, P, A)


def tt(k):
    return S.term_text(k)


def tri(t):
    return "%s %s %s ." % tuple("_:n" if x == "BN" else tt(x) for x in t)


# ---- operations: (name, text, ref function(state, ev_factory) -> None) ---------------------
# state: {"default": set, "named": {G: set}}; terms are keys; ("BN", i) placeholders become fresh blank nodes

class Op:
    def __init__(self, name, text, kind, **kw):
        self.name, self.text, self.kind, self.kw = name, text, kind, kw
        self.needs_dataset = kw.pop("needs_dataset", False)


def graph_of(state, g):
    if g is None:
        return state["default"]
    return state["named"].setdefault(g, set())


def fill(template, mu, fresh):
    """Instantiate template triples; skip triples with unbound or illegal terms."""
    out = []
    for t in template:
        inst = []
        ok = True
        for i, x in enumerate(t):
            if x == "BN":
                v = fresh
            elif S.is_var(x):
                v = mu.get(x[1])
                if v is None:
                    ok = False
                    break
            else:
                v = x
            if i == 0 and v[0] == "L":
                ok = False
            if i == 1 and v[0] != "I":
                ok = False
            inst.append(v)
        if ok:
            out.append(tuple(inst))
    return out


def apply_ref(op, state, union, counter):
    k = op.kind
    kw = op.kw
    if k == "insert-data":
        for g, ts in kw["quads"]:
            graph_of(state, g).update(ts)
    elif k == "delete-data":
        for g, ts in kw["quads"]:
            graph_of(state, g).difference_update(ts)
    elif k == "modify":
        ds = S.Dataset(state["default"], state["named"])
        where_default = kw.get("using")
        named_only = kw.get("using_named")
        if where_default is not None or named_only is not None:
            # USING replaces the query dataset
            d = set()
            for g in (where_default or []):
                d |= state["named"].get(g, set())
            ds = S.Dataset(d, {g: state["named"].get(g, set()) for g in (named_only or [])})
            ev = S.Evaluator(ds, default_union=False)
        elif kw.get("with") is not None:
            ds = S.Dataset(state["named"].get(kw["with"], set()), state["named"])
            ev = S.Evaluator(ds, default_union=False)
        else:
            ev = S.Evaluator(ds, default_union=union)
        sols = ev.pattern(kw["where"])
        dels, inss = [], []
        for mu in sols:
            counter[0] += 1
            fresh = ("B", "fresh%d" % counter[0])
            for g, ts in kw.get("delete", []):
                gg = kw.get("with") if g is None else (mu.get(g[1]) if S.is_var(g) else g)
                if g is not None and gg is None:
                    continue
                for t in fill(ts, mu, fresh):
                    dels.append((gg, t))
            for g, ts in kw.get("insert", []):
                gg = kw.get("with") if g is None else (mu.get(g[1]) if S.is_var(g) else g)
                if g is not None and gg is None:
                    continue
                for t in fill(ts, mu, fresh):
                    inss.append((gg, t))
        for g, t in dels:
            graph_of(state, g).discard(t)
        for g, t in inss:
            graph_of(state, g).add(t)
    elif k == "clear":
        tgt = kw["target"]
        if tgt == "DEFAULT":
            state["default"].clear()
        elif tgt == "NAMED":
            for g in state["named"]:
                state["named"][g].clear()
        elif tgt == "ALL":
            state["default"].clear()
            for g in state["named"]:
                state["named"][g].clear()
        else:
            graph_of(state, tgt).clear()
    elif k in ("add", "move", "copy"):
        src, dst = kw["src"], kw["dst"]
        if src == dst:
            return
        s = set(graph_of(state, src))
        d = graph_of(state, dst)
        if k != "add":
            d.clear()
        d.update(s)
        if k == "move":
            graph_of(state, src).clear()
    else:
        raise ValueError(k)


def gname(g):
    return "DEFAULT" if g is None else "GRAPH %s" % tt(g)


def alphabet():
    ops = []
    ops.append(Op("insert-data-default", "INSERT DATA { %s }" % tri((A, P, A)), "insert-data", quads=[(None, [(A, P, A)])]))
    ops.append(Op("insert-data-graph", "INSERT DATA { GRAPH %s { %s } }" % (tt(G1), tri((A, P, A))), "insert-data", quads=[(G1, [(A, P, A)])], needs_dataset=True))
    ops.append(Op("insert-data-both", "INSERT DATA { %s GRAPH %s { %s } }" % (tri(T1), tt(G2), tri(T2)), "insert-data", quads=[(None, [T1]), (G2, [T2])], needs_dataset=True))
    ops.append(Op("delete-data-default", "DELETE DATA { %s }" % tri(T1), "delete-data", quads=[(None, [T1])]))
    ops.append(Op("delete-data-graph", "DELETE DATA { GRAPH %s { %s } }" % (tt(G1), tri(T1)), "delete-data", quads=[(G1, [T1])], needs_dataset=True))
    T3 = (A, Q, B)
    # the same graph named by two blocks of one quad pattern (the blocks accumulate)
    ops.append(Op("insert-data-graph-twice", "INSERT DATA { GRAPH %s { %s } GRAPH %s { %s } GRAPH %s { %s } }" % (tt(G1), tri(T1), tt(G2), tri(T2), tt(G1), tri(T3)), "insert-data",
                  quads=[(G1, [T1, T3]), (G2, [T2])], needs_dataset=True))
    ops.append(Op("delete-data-graph-twice", "DELETE DATA { GRAPH %s { %s } %s GRAPH %s { %s } }" % (tt(G1), tri(T1), tri(T2), tt(G1), tri(T2)), "delete-data",
                  quads=[(G1, [T1, T2]), (None, [T2])], needs_dataset=True))
    W = ("bgp", [(X, P, Y)])
    ops.append(Op("modify-template-graph-twice", "INSERT { GRAPH %s { ?x %s ?y } GRAPH %s { ?y %s ?x } GRAPH %s { ?y %s ?y } } WHERE { ?x %s ?y }" % (tt(G1), tt(Q), tt(G2), tt(Q), tt(G1), tt(Q), tt(P)), "modify",
                  where=W, insert=[(G1, [(X, Q, Y)]), (G2, [(Y, Q, X)]), (G1, [(Y, Q, Y)])], needs_dataset=True))
    ops.append(Op("delete-where-default", "DELETE WHERE { ?x %s ?y }" % tt(P), "modify", where=W, delete=[(None, [(X, P, Y)])]))
    ops.append(Op("delete-where-graph", "DELETE WHERE { GRAPH %s { ?x %s ?y } }" % (tt(G1), tt(P)), "modify", where=("graph", G1, W), delete=[(G1, [(X, P, Y)])], needs_dataset=True))
    ops.append(Op("delete-where-graphvar", "DELETE WHERE { GRAPH ?g { ?x %s %s } }" % (tt(P), tt(B)), "modify", where=("graph", GV, ("bgp", [(X, P, B)])),
                  delete=[(GV, [(X, P, B)])], needs_dataset=True))
    # DELETE WHERE over several parts of the dataset at once: the pattern is the join of the parts, every part is also a delete template
    ops.append(Op("delete-where-default+graph", "DELETE WHERE { ?x %s ?y . GRAPH %s { ?x %s ?y } }" % (tt(P), tt(G1), tt(P)), "modify",
                  where=("join", W, ("graph", G1, W)), delete=[(None, [(X, P, Y)]), (G1, [(X, P, Y)])], needs_dataset=True))
    ops.append(Op("delete-where-default+graph-chain", "DELETE WHERE { ?x %s ?y . GRAPH %s { ?y %s ?z } }" % (tt(P), tt(G1), tt(P)), "modify",
                  where=("join", W, ("graph", G1, ("bgp", [(Y, P, Z)]))), delete=[(None, [(X, P, Y)]), (G1, [(Y, P, Z)])], needs_dataset=True))
    ops.append(Op("delete-where-graph+graph", "DELETE WHERE { GRAPH %s { ?x %s ?y } GRAPH %s { ?y %s ?z } }" % (tt(G1), tt(P), tt(G2), tt(P)), "modify",
                  where=("join", ("graph", G1, W), ("graph", G2, ("bgp", [(Y, P, Z)]))), delete=[(G1, [(X, P, Y)]), (G2, [(Y, P, Z)])], needs_dataset=True))
    ops.append(Op("delete-where-default+graphvar", "DELETE WHERE { ?x %s ?y . GRAPH ?g { ?y %s ?z } }" % (tt(P), tt(P)), "modify",
                  where=("join", W, ("graph", GV, ("bgp", [(Y, P, Z)]))), delete=[(None, [(X, P, Y)]), (GV, [(Y, P, Z)])], needs_dataset=True))
    ops.append(Op("modify-swap", "DELETE { ?x %s ?y } INSERT { ?y %s ?x } WHERE { ?x %s ?y }" % (tt(P), tt(P), tt(P)), "modify", where=W,
                  delete=[(None, [(X, P, Y)])], insert=[(None, [(Y, P, X)])]))
    ops.append(Op("modify-unbound", "DELETE { ?x %s ?y } INSERT { ?x %s ?z . ?y %s ?x } WHERE { ?x %s ?y OPTIONAL { ?y %s ?z } }" % (tt(P), tt(Q), tt(Q), tt(P), tt(Q)), "modify",
                  where=("opt", W, ("bgp", [(Y, Q, Z)])), delete=[(None, [(X, P, Y)])], insert=[(None, [(X, Q, Z), (Y, Q, X)])]))
    ops.append(Op("insert-literal-subject", 'INSERT { "lit" %s ?x . ?x %s "lit" } WHERE { ?x %s ?y }' % (tt(P), tt(Q), tt(P)), "modify", where=W,
                  insert=[(None, [(LIT, P, X), (X, Q, LIT)])]))
    ops.append(Op("insert-fresh-bnode", "INSERT { _:n %s ?x . _:n %s ?y } WHERE { ?x %s ?y }" % (tt(P), tt(Q), tt(P)), "modify", where=W,
                  insert=[(None, [("BN", P, X), ("BN", Q, Y)])]))
    # the solution sequence is a multiset: a solution that occurs twice instantiates the template twice, each time with fresh blank nodes
    WW = ("union", W, W)
    ops.append(Op("insert-fresh-bnode-duplicate-solutions", "INSERT { _:n %s ?x . _:n %s ?y } WHERE { { ?x %s ?y } UNION { ?x %s ?y } }" % (tt(P), tt(Q), tt(P), tt(P)), "modify", where=WW,
                  insert=[(None, [("BN", P, X), ("BN", Q, Y)])]))
    ops.append(Op("modify-fresh-bnode-duplicate-solutions-graph", "DELETE { ?x %s ?y } INSERT { GRAPH %s { [] %s ?x } } WHERE { { ?x %s ?y } UNION { ?x %s ?y } }" % (tt(P), tt(G1), tt(Q), tt(P), tt(P)),
                  "modify", where=WW, delete=[(None, [(X, P, Y)])], insert=[(G1, [("BN", Q, X)])], needs_dataset=True))
    # a template without any variable is still instantiated once per solution: its blank nodes are fresh each time
    ops.append(Op("insert-fresh-bnode-no-variable", "INSERT { _:n %s %s . _:n %s %s } WHERE { ?x %s ?y }" % (tt(P), tt(A), tt(Q), tt(A), tt(P)), "modify", where=W,
                  insert=[(None, [("BN", P, A), ("BN", Q, A)])]))
    ops.append(Op("with-insert-fresh-bnode-no-variable", "WITH %s INSERT { [] %s %s } WHERE { ?x %s ?y }" % (tt(G1), tt(Q), tt(A), tt(P)), "modify", where=W,
                  insert=[(None, [("BN", Q, A)])], needs_dataset=True, **{"with": G1}))
    ops.append(Op("insert-graphvar", "INSERT { GRAPH ?g { ?x %s ?y } } WHERE { GRAPH ?g { ?x %s ?y } }" % (tt(Q), tt(P)), "modify", where=("graph", GV, W),
                  insert=[(GV, [(X, Q, Y)])], needs_dataset=True))
    ops.append(Op("insert-into-graph", "INSERT { GRAPH %s { ?x %s ?y } } WHERE { ?x %s ?y }" % (tt(G1), tt(P), tt(P)), "modify", where=W, insert=[(G1, [(X, P, Y)])], needs_dataset=True))
    ops.append(Op("with-swap", "WITH %s DELETE { ?x %s ?y } INSERT { ?y %s ?x } WHERE { ?x %s ?y }" % (tt(G1), tt(P), tt(P), tt(P)), "modify", where=W, **{"with": G1},
                  delete=[(None, [(X, P, Y)])], insert=[(None, [(Y, P, X)])], needs_dataset=True))
    ops.append(Op("with-insert", "WITH %s INSERT { ?x %s ?y } WHERE { ?x %s ?y }" % (tt(G1), tt(Q), tt(P)), "modify", where=W, **{"with": G1}, insert=[(None, [(X, Q, Y)])], needs_dataset=True))
    ops.append(Op("using-delete", "DELETE { ?x %s ?y } USING %s WHERE { ?x %s ?y }" % (tt(P), tt(G1), tt(P)), "modify", where=W, using=[G1], delete=[(None, [(X, P, Y)])], needs_dataset=True))
    ops.append(Op("using-named-insert", "INSERT { ?x %s ?y } USING NAMED %s WHERE { GRAPH %s { ?x %s ?y } }" % (tt(Q), tt(G1), tt(G1), tt(P)), "modify",
                  where=("graph", G1, W), using_named=[G1], insert=[(None, [(X, Q, Y)])], needs_dataset=True))
    # WITH and USING together: USING decides what WHERE sees, WITH still names the graph the bare templates write to
    ops.append(Op("with-using-swap", "WITH %s DELETE { ?x %s ?y } INSERT { ?y %s ?x } USING %s WHERE { ?x %s ?y }" % (tt(G1), tt(P), tt(P), tt(G2), tt(P)), "modify", where=W,
                  using=[G2], delete=[(None, [(X, P, Y)])], insert=[(None, [(Y, P, X)])], needs_dataset=True, **{"with": G1}))
    ops.append(Op("with-using-insert-graph", "WITH %s INSERT { ?x %s ?y . GRAPH %s { ?y %s ?x } } USING %s WHERE { ?x %s ?y }" % (tt(G1), tt(Q), tt(G2), tt(Q), tt(G2), tt(P)), "modify",
                  where=W, using=[G2], insert=[(None, [(X, Q, Y)]), (G2, [(Y, Q, X)])], needs_dataset=True, **{"with": G1}))
    ops.append(Op("with-using-named-delete", "WITH %s DELETE { ?x %s ?y } USING NAMED %s WHERE { GRAPH %s { ?x %s ?y } }" % (tt(G1), tt(P), tt(G2), tt(G2), tt(P)), "modify",
                  where=("graph", G2, W), using_named=[G2], delete=[(None, [(X, P, Y)])], needs_dataset=True, **{"with": G1}))
    ops.append(Op("with-using-both", "WITH %s INSERT { ?x %s ?y } USING %s USING NAMED %s WHERE { { ?x %s ?y } UNION { GRAPH %s { ?x %s ?y } } }"
                  % (tt(G2), tt(Q), tt(G1), tt(G2), tt(P), tt(G2), tt(P)), "modify", where=("union", W, ("graph", G2, W)), using=[G1], using_named=[G2],
                  insert=[(None, [(X, Q, Y)])], needs_dataset=True, **{"with": G2}))
    ops.append(Op("delete-g1-where-g2", "DELETE { GRAPH %s { ?x %s ?y } } WHERE { GRAPH %s { ?x %s ?y } }" % (tt(G1), tt(P), tt(G2), tt(P)), "modify", where=("graph", G2, W),
                  delete=[(G1, [(X, P, Y)])], needs_dataset=True))
    for verb in ("CLEAR", "DROP"):
        for tgt, txt in (("DEFAULT", "DEFAULT"), ("NAMED", "NAMED"), ("ALL", "ALL"), (G1, "GRAPH " + tt(G1)), (GM, "SILENT GRAPH " + tt(GM))):
            ops.append(Op("%s-%s" % (verb.lower(), txt.split()[0].lower() if tgt in ("DEFAULT", "NAMED", "ALL") else ("graph" if tgt == G1 else "missing")),
                          "%s %s" % (verb, txt), "clear", target=tgt, needs_dataset=(tgt != "DEFAULT" or verb == "DROP")))
    for verb in ("ADD", "MOVE", "COPY"):
        for src, dst in itertools.product([None, G1, G2, GM], repeat=2):
            if dst == GM and src == GM:
                continue
            silent = " SILENT" if (src == GM) else ""
            ops.append(Op("%s-%s-to-%s" % (verb.lower(), "default" if src is None else src[1][-2:] if src != GM else "missing", "default" if dst is None else dst[1][-2:] if dst != GM else "missing"),
                          "%s%s %s TO %s" % (verb, silent, gname(src), gname(dst)), verb.lower(), src=src, dst=dst, needs_dataset=True))
    return ops


OPS = alphabet()
OPS_BY_NAME = {o.name: o for o in OPS}


def initial_states():
    out = []
    for d1, d2 in itertools.product(range(8), repeat=2):
        st = {"default": set(), "named": {G1: set(), G2: set()}}
        for t, bits in ((T1, d1), (T2, d2)):
            if bits & 1:
                st["default"].add(t)
            if bits & 2:
                st["named"][G1].add(t)
            if bits & 4:
                st["named"][G2].add(t)
        out.append(st)
    return out


def mkterm(k):
    if k[0] == "I":
        return URIRef(k[1])
    if k[0] == "B":
        return BNode(k[1])
    return Literal(k[1], datatype=None if k[2] is None else URIRef(k[2]), lang=k[3])


def build_target(kind, state, union=False):
    with warnings.catch_warnings():
        warnings.simplefilter("ignore")
        if kind == "graph":
            g = Graph(bind_namespaces="none")
            for t in state["default"]:
                g.add(tuple(mkterm(x) for x in t))
            return g
        # (a ConjunctiveGraph created without identifier has two different unnamed graphs, its own identifier and its
        # default context; an explicit identifier makes them one)
        c = ConjunctiveGraph(identifier=URIRef("urn:x-cg:default")) if kind == "cg" else Dataset(default_union=union)
        for t in state["default"]:
            c.add(tuple(mkterm(x) for x in t))
        for gname_, ts in state["named"].items():
            for t in ts:
                c.add(tuple(mkterm(x) for x in t) + (mkterm(gname_),))
        return c


def read_target(kind, target):
    rows = set()
    with warnings.catch_warnings():
        warnings.simplefilter("ignore")
        if kind == "graph":
            return {(tkey(s), tkey(p), tkey(o), None) for s, p, o in target}
        did = tkey(target.default_context.identifier)
        for s, p, o, c in target.quads((None, None, None, None)):
            cid = c.identifier if isinstance(c, Graph) else c
            ck = None if cid is None else tkey(cid)
            if ck == did or ck == tkey(DATASET_DEFAULT_GRAPH_ID):
                ck = None
            rows.add((tkey(s), tkey(p), tkey(o), ck))
    return rows


def state_rows(state):
    rows = {(t[0], t[1], t[2], None) for t in state["default"]}
    for g, ts in state["named"].items():
        rows |= {(t[0], t[1], t[2], g) for t in ts}
    return rows


def copy_state(st):
    return {"default": set(st["default"]), "named": {g: set(ts) for g, ts in st["named"].items()}}


def run_request(kind, union, state, names, horizon=20.0):
    ops = [OPS_BY_NAME[n] for n in names]
    if kind == "graph" and any(o.needs_dataset for o in ops):
        return "skip"
    st = copy_state(state)
    if kind == "graph":
        st["named"] = {}
    counter = [0]
    text = " ;\n".join(o.text for o in ops)
    # the union switch is paired with Dataset(default_union=...): the mixed combinations are not demanded (DESIGN 7)
    target = build_target(kind, st, union)
    try:
        import rdflib.plugins.sparql as _sp
        old_load = _sp.SPARQL_LOAD_GRAPHS
        _sp.SPARQL_LOAD_GRAPHS = False  # USING <g> means the graph of the dataset, never a fetch from the network
        try:
            with seams.watchdog(horizon), seams.sparql_union(union), warnings.catch_warnings():
                warnings.simplefilter("ignore")
                target.update(text)
        finally:
            _sp.SPARQL_LOAD_GRAPHS = old_load
    except Exception as e:  # noqa: BLE001
        return ("%s|raises|%s|%s" % (ops[-1].kind if len(ops) == 1 else "sequence", type(e).__name__, _opclass(ops)), {"request": text, "exc": repr(e)[:300]})
    # reference: the union switch only changes what reads of the default graph see
    eff_union = union if kind != "graph" else False
    for o in ops:
        apply_ref(o, st, eff_union, counter)
    got = read_target(kind, target)
    want = state_rows(st)
    if not iso(got, want):
        extra = sorted(got - want, key=repr)
        missing = sorted(want - got, key=repr)
        where = "default-graph" if any(r[3] is None for r in extra + missing) else "named-graph"
        return ("%s|dataset-differs|%s" % (_opclass(ops), where), {"request": text, "extra": extra[:6], "missing": missing[:6], "union_switch": union, "target": kind})
    return None


def _opclass(ops):
    return "+".join(o.name if o.kind in ("modify", "insert-data", "delete-data") else o.kind + ("-default" if o.kw.get("target") == "DEFAULT" or o.kw.get("src") is None or o.kw.get("dst") is None else "") for o in ops)


def _batch(items):
    viols = []
    n = 0
    nontriv = 0
    for kind, union, si, names in items:
        state = _STATES[si]
        v = run_request(kind, union, state, names)
        if v == "skip":
            continue
        n += 1
        if state_rows(state):
            nontriv += 1
        if v:
            viols.append({"sig": "%s|%s" % (kind, v[0]), "detail": v[1], "case": {"request": [kind, union, si, list(names)]}})
    best = {}
    for v in viols:
        k = v["sig"]
        if k not in best:
            best[k] = v
    from collections import Counter
    return list(best.values()), n, nontriv, Counter(v["sig"] for v in viols)


_STATES = initial_states()


def run(ctx):
    from collections import Counter
    thorough = ctx.tier == "thorough"
    names = [o.name for o in OPS]
    items = []
    for kind in ("graph", "cg", "dataset"):
        for union in (True, False):
            for si in range(len(_STATES)):
                for n in names:
                    items.append((kind, union, si, (n,)))
            # sequences of two operations on a family of start states
            fam = range(len(_STATES)) if thorough else [0, 9, 27, 63, 21, 42, 36, 7]
            core = names if thorough else [n for n in names if not n.startswith(("add-", "copy-", "move-", "drop-"))] + ["move-g1-to-g2", "copy-default-to-g1", "add-g1-to-default", "drop-all"]
            for si in fam:
                for a in core:
                    for b in core:
                        items.append((kind, union, si, (a, b)))
    res = R.pmap(_batch, R.shards(items, ctx.jobs * 16), ctx.jobs)
    counts = Counter()
    tr = 0
    for viols, n, nt, cnt in res:
        ctx.extend(viols)
        tr += n
        ctx.add("nontrivial_transitions", nt)
        counts.update(cnt)
    ctx.cov["states"] = len(_STATES) * 6
    ctx.cov["transitions"] = tr
    ctx.cov["traces_validated_against_impl"] = tr
    ctx.cov["operations"] = len(OPS)
    ctx.cov["violating_by_signature"] = dict(counts.most_common(40))
    ctx.cov["exhaustive"] = True
    ctx.cov["rule"] = ("requests = every single operation of a %d-operation alphabet from each of the 64 distributions of {a p b, b p a} over {default, g1, g2}, and every "
                       "ordered pair of operations from a family of start states, through Graph / ConjunctiveGraph / Dataset with the default-graph-union switch on and off; "
                       "transition = one request executed by rdflib's update engine; the resulting quads must equal (up to fresh blank nodes) those of the reference "
                       "(WHERE on the pre-state, all deletions then all insertions, illegal/unbound template triples skipped)." % len(OPS))
    ctx.sample({"request": ["dataset", True, 9, ["modify-swap"]], "text": OPS_BY_NAME["modify-swap"].text})
    ctx.assumptions += ["missing graphs are only addressed with SILENT; empty named graphs are not distinguished from absent ones (quad sets are compared)",
                        "for a plain Graph only operations on the default graph are applied"]


def replay(ctx, case):
    kind, union, si, names = case["request"]
    v = run_request(kind, union, _STATES[si], names, horizon=60.0)
    if v and v != "skip":
        return [{"sig": "%s|%s" % (kind, v[0]), "case": case, "detail": v[1]}]
    return []


META = {
    "text": "Exhaustive exploration of update requests on the real engine: every operation of a 90-operation alphabet (and every ordered pair over a sub-alphabet) from "
            "every distribution of two triples over the default graph and two named graphs, through Graph, ConjunctiveGraph and Dataset, with the default-graph-union "
            "switch on and off; the dataset after the request is compared, up to fresh blank nodes, with an independent implementation of the SPARQL 1.1 Update "
            "semantics (WHERE evaluated once on the pre-state by the reference evaluator, deletions before insertions, WITH / USING / GRAPH templates, graph management).",
    "note": "Small scope: 2 triples, 2 named graphs (+1 missing), requests of <=2 operations; missing graphs addressed with SILENT only; empty graphs not observed. ~75 operations incl. WITH together with USING / USING NAMED and variable-free templates with blank nodes.",
    "technique": "exhaustive enumeration of update requests x dataset states against a reference implementation of SPARQL Update",
}
