"""C18 - rollback restores, commit keeps: AuditableStore is atomic over any history.

(1) BFS to closure over histories of add / remove / wildcard remove / commit / rollback through
Graph and ConjunctiveGraph clients of one AuditableStore over a Memory base store, from every
initial content; model = (content, snapshot). (2) Two wrappers over one base store touching
disjoint quads: every pair of op sequences (<= 3 each), every merge order, every initial
content, every ending (who commits / rolls back, in which order).
"""
from __future__ import annotations

import itertools

from rdflib import ConjunctiveGraph, Graph
from rdflib.plugins.stores.auditable import AuditableStore
from rdflib.plugins.stores.memory import Memory

from .. import explore, seams
from .. import run as R
from ..canon import canon, tkey
from ..vocab import T

ID = "C18"
LEVEL = "model_checking"

TRIPLES = {"t0": ("A", "P", "B"), "t1": ("B", "P", "Lempty")}
PATTERNS = {"ALL": (None, None, None), "SA": ("A", None, None), "OE": (None, None, "Lempty"),
            "t0": TRIPLES["t0"], "t1": TRIPLES["t1"]}


def _match(pat, tname):
    t = TRIPLES[tname]
    return all(p is None or p == x for p, x in zip(PATTERNS[pat], t))


def base_quads(base):
    out = set()
    for s, p, o, c in ConjunctiveGraph(base).quads((None, None, None)):
        out.add((tkey(s), tkey(p), tkey(o), tkey(c.identifier)))
    return out


def quad_key(tname, gname):
    return tuple(tkey(T(x)) for x in TRIPLES[tname]) + (tkey(T(gname)),)


class State:
    pass


class Spec:
    def __init__(self, graphs, with_cg_default):
        self.graphs = graphs
        self.cgdef = with_cg_default
        self.universe = [(t, g) for t in TRIPLES for g in graphs]
        self.name = "auditable(graphs=%s,cgdefault=%s)" % (graphs, with_cg_default)

    def initials(self):
        out = []
        for r in range(len(self.universe) + 1):
            for sub in itertools.combinations(self.universe, r):
                out.append(["init", [list(q) for q in sub]])
        return out

    def build(self, init):
        seams.reset_bnode_counter()
        S = State()
        S.base = Memory()
        for t, g in init[1]:
            Graph(S.base, T(g)).add(T(TRIPLES[t]))
        S.aud = AuditableStore(S.base)
        S.cg = ConjunctiveGraph(S.aud, identifier=T("G3"))
        S.content = {tuple(q) for q in init[1]}
        S.snap = set(S.content)
        S.touched = set()
        S.last_retouch = False
        return S

    def ops(self, S):
        out = []
        for t, g in self.universe:
            out.append(["add", t, g])
            out.append(["rem", t, g])
        for g in self.graphs:
            for pat in ("ALL", "SA", "OE"):
                out.append(["remw", pat, g])
        for pat in ("t0", "t1", "ALL", "SA"):
            out.append(["cgrem", pat])
        out.append(["cgaddq", "t0", self.graphs[-1]])
        # bulk additions: a batch that names one quad twice, a batch over two graphs, and += of another graph
        for g in self.graphs:
            out.append(["addn", [["t0", g], ["t1", g], ["t0", g]]])
        if len(self.graphs) > 1:
            out.append(["addn", [["t0", self.graphs[0]], ["t0", self.graphs[1]], ["t1", self.graphs[0]], ["t0", self.graphs[0]]]])
        out.append(["iadd", ["t0", "t1"], self.graphs[0]])
        if self.cgdef:
            out.append(["cgadd", "t0"])
            out.append(["cgadd", "t1"])
            out.append(["rem", "t0", "G3"])
        out.append(["commit"])
        out.append(["rollback"])
        return out

    def apply(self, S, op):
        k = op[0]
        affected = set()
        try:
            if k == "add":
                Graph(S.aud, T(op[2])).add(T(TRIPLES[op[1]]))
                affected = {(op[1], op[2])}
                S.content |= affected
            elif k == "rem":
                Graph(S.aud, T(op[2])).remove(T(TRIPLES[op[1]]))
                affected = {(op[1], op[2])}
                S.content -= affected
            elif k == "remw":
                Graph(S.aud, T(op[2])).remove(T(PATTERNS[op[1]]))
                affected = {(t, g) for (t, g) in S.content if g == op[2] and _match(op[1], t)}
                S.content -= affected
            elif k == "cgrem":
                S.cg.remove(T(PATTERNS[op[1]]))
                affected = {(t, g) for (t, g) in S.content if _match(op[1], t)}
                S.content -= affected
            elif k == "cgaddq":
                S.cg.add(T(TRIPLES[op[1]]) + (T(op[2]),))
                affected = {(op[1], op[2])}
                S.content |= affected
            elif k == "addn":
                S.cg.addN([T(TRIPLES[t]) + (Graph(S.aud, T(g)),) for t, g in op[1]])
                affected = {(t, g) for t, g in op[1]}
                S.content |= affected
            elif k == "iadd":
                other = Graph()
                for t in op[1]:
                    other.add(T(TRIPLES[t]))
                gg = Graph(S.aud, T(op[2]))
                gg += other
                affected = {(t, op[2]) for t in op[1]}
                S.content |= affected
            elif k == "cgadd":
                S.cg.add(T(TRIPLES[op[1]]))
                affected = {(op[1], "G3")}
                S.content |= affected
            elif k == "commit":
                S.cg.commit()
                S.snap = set(S.content)
                S.touched = set()
            elif k == "rollback":
                S.cg.rollback()
                S.content = set(S.snap)
                S.touched = set()
        except Exception as e:  # noqa: BLE001
            return [("%s|raises" % k, {"op": op, "exc": repr(e)})]
        S.last_retouch = bool(affected & S.touched)
        S.touched |= affected
        S.last = k
        return []

    def check(self, S):
        got = base_quads(S.base)
        exp = {quad_key(t, g) for t, g in S.content}
        v = []
        if got != exp:
            v.append(("%s|store-content-differs-from-model" % getattr(S, "last", "init"),
                      {"store": sorted(got), "expected": sorted(exp), "reverseOps": repr(S.aud.reverseOps)}))
        # per-graph views through the wrapper agree as well
        for g in set(self.graphs) | {"G3"}:
            view = {tuple(tkey(x) for x in t) for t in Graph(S.aud, T(g))}
            e = {q[:3] for q in exp if q[3] == tkey(T(g))}
            if view != e:
                v.append(("%s|view-through-wrapper-differs" % getattr(S, "last", "init"),
                          {"graph": g, "view": sorted(view), "expected": sorted(e)}))
        return v

    def key(self, S):
        return (tuple(sorted(S.content)), tuple(sorted(S.snap)), canon(vars(S.aud)), canon(vars(S.cg)))

    def model_key(self, S):
        return (tuple(sorted(S.content)), tuple(sorted(S.snap)), tuple(sorted(S.touched)))

    def nontrivial(self, before, op, after):
        # operation on a quad already touched in this transaction, or a commit/rollback of a non-empty one
        if op[0] in ("commit", "rollback"):
            return bool(before[2])
        b, a = set(before[2]), set(after[2])
        if op[0] in ("add", "cgaddq", "cgadd"):
            q = (op[1], op[2] if len(op) > 2 else "G3")
            return q in b
        if op[0] == "addn":
            return any(tuple(q) in b for q in op[1])
        if op[0] == "iadd":
            return any((t, op[2]) in b for t in op[1])
        return bool(b) and (before[0] != after[0])


# ---------------------------------------------------------------------------
# two wrappers

W_OPS = ["add", "rem", "remw_all", "remw_s"]
W_QUAD = {1: ("t0", "G1"), 2: ("t1", "G2")}


def _w_apply(store, w, op):
    t, g = W_QUAD[w]
    gr = Graph(store, T(g))
    tr = T(TRIPLES[t])
    if op == "add":
        gr.add(tr)
    elif op == "rem":
        gr.remove(tr)
    elif op == "remw_all":
        gr.remove((None, None, None))
    elif op == "remw_s":
        gr.remove((tr[0], None, None))


def _w_model(present, op):
    return True if op == "add" else False


def merges(n1, n2):
    """All interleavings of n1 steps of thread 1 and n2 steps of thread 2, as tuples of 1/2."""
    for pos in itertools.combinations(range(n1 + n2), n1):
        m = [2] * (n1 + n2)
        for p in pos:
            m[p] = 1
        yield tuple(m)


def deviations(m):
    """Number of switches away from the running sequence while it still has steps left."""
    dev = 0
    rem = {1: m.count(1), 2: m.count(2)}
    cur = None
    for x in m:
        if cur is not None and x != cur and rem[cur] > 0:
            dev += 1
        rem[x] -= 1
        cur = x
    return dev


ENDINGS = [("rb1", "cm2"), ("cm2", "rb1"), ("cm1", "rb2"), ("rb2", "cm1"), ("rb1", "rb2"), ("rb2", "rb1")]


def run_two(case):
    init, seq1, seq2, merge, ending = case
    base = Memory()
    pres = {1: bool(init[0]), 2: bool(init[1])}
    for w in (1, 2):
        if pres[w]:
            t, g = W_QUAD[w]
            Graph(base, T(g)).add(T(TRIPLES[t]))
    start = dict(pres)
    ws = {1: AuditableStore(base), 2: AuditableStore(base)}
    idx = {1: 0, 2: 0}
    seqs = {1: seq1, 2: seq2}
    for w in merge:
        op = seqs[w][idx[w]]
        idx[w] += 1
        _w_apply(ws[w], w, op)
        pres[w] = _w_model(pres[w], op)
    for e in ending:
        w = int(e[2])
        if e.startswith("rb"):
            ws[w].rollback()
            pres[w] = start[w]
        else:
            ws[w].commit()
    got = base_quads(base)
    exp = {quad_key(*W_QUAD[w]) for w in (1, 2) if pres[w]}
    if got != exp:
        return ("two-wrappers|final-content-differs",
                {"store": sorted(got), "expected": sorted(exp)})
    return None


def _two_batch(pairs):
    viols = []
    n = 0
    nontriv = 0
    by_dev = {}
    for seq1, seq2 in pairs:
        for merge in merges(len(seq1), len(seq2)):
            d = deviations(merge)
            for init in ((0, 0), (0, 1), (1, 0), (1, 1)):
                for ending in ENDINGS:
                    case = [list(init), list(seq1), list(seq2), list(merge), list(ending)]
                    v = run_two(case)
                    n += 1
                    by_dev[d] = by_dev.get(d, 0) + 1
                    if len(seq1) >= 2 or len(seq2) >= 2:
                        nontriv += 1
                    if v:
                        viols.append({"sig": v[0], "case": {"two": case}, "detail": v[1]})
    return viols, n, nontriv, by_dev


def run(ctx):
    thorough = ctx.tier == "thorough"
    spec = Spec(["G1", "G2"], with_cg_default=False)
    explore.bfs(spec, ctx, max_depth=30, batch=8)
    if thorough:
        spec2 = Spec(["G1", "GB"], with_cg_default=True)
        explore.bfs(spec2, ctx, max_depth=30, batch=16, time_cap=900)
    maxlen = 3
    seqs = [list(s) for n in range(maxlen + 1) for s in itertools.product(W_OPS, repeat=n)]
    pairs = [(a, b) for a in seqs for b in seqs]
    res = R.pmap(_two_batch, R.shards(pairs, ctx.jobs * 4), ctx.jobs)
    total = 0
    by_dev = {}
    for viols, n, nt, bd in res:
        ctx.extend(viols)
        total += n
        ctx.add("two_wrapper_nontrivial", nt)
        for k, v in bd.items():
            by_dev[k] = by_dev.get(k, 0) + v
    ctx.cov["schedules"] = total
    ctx.cov["schedules_by_deviation_count"] = {str(k): v for k, v in sorted(by_dev.items())}
    ctx.cov["deviation_bound_completed"] = "unbounded (all merge orders of <=3+3 steps)"
    ctx.cov["exhaustive"] = True
    ctx.cov["rule"] = ("BFS to closure over add/remove/wildcard-remove/commit/rollback through Graph and ConjunctiveGraph clients "
                       "of AuditableStore(Memory), all initial contents of the quad universe; key = (content, snapshot, reverseOps "
                       "sequence, base store internals). Two wrappers: all pairs of sequences (<=3 ops of %s) x all merges x 4 initial "
                       "contents x 6 endings. Non-trivial: op on a quad already touched in the transaction / sequences of >= 2 ops." % W_OPS)
    ctx.sample({"two": [[1, 0], ["rem", "add"], ["add"], [1, 2, 1], ["rb1", "cm2"]]})
    ctx.assumptions += ["AuditableStore is not graph-aware, so clients are Graph and ConjunctiveGraph (Dataset refuses it)",
                        "OS-thread interleavings inside one store operation are not explored; interleaving is at operation granularity"]


def replay(ctx, case):
    if "history" in case:
        h = case["history"]
        gs = sorted({g for _, g in h[0][1]} | {"G1", "G2"})
        cgdef = any(op[0] == "cgadd" or (len(op) > 2 and op[2] == "G3") for op in h[1:])
        if any(g == "GB" for _, g in h[0][1]) or any("GB" in op for op in h[1:]):
            spec = Spec(["G1", "GB"], True)
        else:
            spec = Spec(["G1", "G2"], cgdef)
        viols = explore.run_history(spec, h)
        return [{"sig": s, "case": case, "detail": d} for s, d in viols]
    v = run_two(case["two"])
    return [{"sig": v[0], "case": case, "detail": v[1]}] if v else []


META = {
    "text": "Explicit-state model checking of the real AuditableStore over a Memory store: BFS to closure over every history of "
            "add, exact remove, wildcard remove (per graph and across graphs), commit and rollback from every initial content, "
            "fingerprinting the undo log and the base store's internals; the base store must equal the (content, snapshot) model "
            "after every step. For two wrappers on one store, every pair of operation sequences (<=3 each), every merge order, "
            "every initial content and every ending is executed. Closure gives a verdict for histories of any length over the vocabulary.",
    "note": "Small scope: 2 triples (one with a falsy object) x 2-3 graphs; Memory base store only; single and bulk additions (addN with a repeated quad / over two graphs, +=); interleaving at operation granularity, "
            "no OS threads; 'content' is the quad set of the base store (the set of known-but-empty graphs is not compared).",
    "technique": "explicit-state BFS to closure over transaction histories + exhaustive merge-order enumeration for two wrappers",
}
