"""C14 - graph isomorphism and canonicalisation decide equality up to blank-node renaming.

Exhaustive universes of blank-node structures; rdflib's digest partition is compared with the
true isomorphism partition (minimum adjacency code over all node permutations), which decides
every PAIR of the universe in both directions without enumerating pairs.
"""
from __future__ import annotations

import itertools

from rdflib import Graph
from rdflib.compare import graph_diff, isomorphic, to_canonical_graph, to_isomorphic
from rdflib.term import BNode, Literal, URIRef

from .. import run as R
from ..canon import canon_rows, iso, tkey
from ..vocab import T

ID = "C14"
LEVEL = "exploration"

P = T("P")
Q = T("Q")


# ---- universes ------------------------------------------------------------

def u1_edges(n):
    return [(i, j) for i in range(n) for j in range(n)]


def u2_edges(n):
    return [(i, j) for i in range(n) for j in range(i + 1, n)]


def perm_tables(n, edges, undirected):
    idx = {e: k for k, e in enumerate(edges)}
    tabs = []
    for perm in itertools.permutations(range(n)):
        tab = []
        for (i, j) in edges:
            a, b = perm[i], perm[j]
            if undirected and a > b:
                a, b = b, a
            tab.append(idx[(a, b)])
        tabs.append(tab)
    return tabs


def canon_code(mask, nbits, tabs):
    """(minimum permuted code, number of automorphisms)."""
    bits = [k for k in range(nbits) if mask >> k & 1]
    best = None
    aut = 0
    for tab in tabs:
        c = 0
        for k in bits:
            c |= 1 << tab[k]
        if c == mask:
            aut += 1
        if best is None or c < best:
            best = c
    return best, aut


def build(kind, n, mask, naming=0, reverse=False):
    edges = u1_edges(n) if kind == "u1" else u2_edges(n)
    if naming == 0:
        nodes = [BNode("b%d" % i) for i in range(n)]
    elif naming == 1:
        nodes = [BNode("N%032x" % (977 * (n - i) + 13)) for i in range(n)]
    else:
        nodes = [BNode("z%d" % ((i * 5 + 3) % 7)) for i in range(n)]
    triples = []
    for k, (i, j) in enumerate(edges):
        if mask >> k & 1:
            triples.append((nodes[i], P, nodes[j]))
            if kind == "u2":
                triples.append((nodes[j], P, nodes[i]))
    if reverse:
        triples.reverse()
    g = Graph(bind_namespaces="none")
    for t in triples:
        g.add(t)
    return g


def rows(g):
    return {tuple(tkey(x) for x in t) for t in g}


def _digest(g):
    return to_isomorphic(g).internal_hash()


def _canon_triples(g):
    return frozenset(rows(to_canonical_graph(g)))


def _universe_batch(arg):
    kind, n, masks = arg
    edges = u1_edges(n) if kind == "u1" else u2_edges(n)
    tabs = perm_tables(n, edges, kind == "u2")
    out = []
    for mask in masks:
        code, aut = canon_code(mask, len(edges), tabs)
        g = build(kind, n, mask)
        d = _digest(g)
        # a differently named and re-inserted copy must give the same digest and the same canonical graph
        g2 = build(kind, n, mask, naming=1 + (mask % 2), reverse=True)
        d2 = _digest(g2)
        c1 = _canon_triples(g)
        c2 = _canon_triples(g2)
        eq = (to_isomorphic(g) == to_isomorphic(g2))
        sk_ok = skolem_roundtrip(g, full=(len(edges) <= 10)) is None
        canon_iso = iso(c1, rows(g))
        out.append((mask, code, aut, d, d2 == d and eq, hash(c1), c1 == c2, sk_ok, canon_iso))
    return out


def skolem_roundtrip(g, full=True):
    """Every way of the API to skolemise and de-skolemise g; returns the name of the first variant whose result is not isomorphic to g (None if all are).
    full=False: the default call only (used for the two large universes, whose graphs add nothing to what the API variants depend on)."""
    r = rows(g)
    if not iso(rows(g.skolemize().de_skolemize()), r):
        return "default"
    if not full:
        return None
    # results written into graphs supplied by the caller (empty, as a caller normally supplies them)
    t, u = Graph(bind_namespaces="none"), Graph(bind_namespaces="none")
    r1 = g.skolemize(new_graph=t)
    r2 = t.de_skolemize(new_graph=u)
    if r1 is not t or r2 is not u or not iso(rows(u), r) or any(isinstance(x, BNode) for tr in t for x in tr):
        return "new_graph"
    if rows(g) != r:
        return "source-modified"
    for kw in ({"authority": "http://ex.org"}, {"authority": "http://ex.org", "basepath": "/.well-known/genid/x/"}):
        if not iso(rows(g.skolemize(**kw).de_skolemize()), r):
            return "authority/basepath"
    # one blank node at a time
    for b in sorted({x for tr in g for x in tr if isinstance(x, BNode)}):
        s1 = g.skolemize(bnode=b)
        if not iso(rows(s1.de_skolemize()), r):
            return "single-bnode"
        if not iso(rows(s1.de_skolemize(uriref=b.skolemize())), r):
            return "single-bnode,uriref"
    return None


def check_universe(ctx, kind, n):
    edges = u1_edges(n) if kind == "u1" else u2_edges(n)
    nb = len(edges)
    masks = list(range(1 << nb))
    res = R.pmap(_universe_batch, [(kind, n, s) for s in R.shards(masks, ctx.jobs * 4)], ctx.jobs)
    by_digest = {}
    by_code = {}
    canon_by_code = {}
    nontriv = 0
    total = 0
    for batch in res:
        for mask, code, aut, d, copy_ok, ch, canon_same, sk_ok, canon_iso in batch:
            total += 1
            if aut > 1:
                nontriv += 1
            by_digest.setdefault(d, set()).add(code)
            by_code.setdefault(code, set()).add(d)
            canon_by_code.setdefault(code, {}).setdefault(ch, mask)
            case = {"universe": [kind, n], "mask": mask}
            if not copy_ok:
                ctx.violation("relabelled-copy|digest-or-to_isomorphic-differs", case, {"automorphisms": aut})
            if not canon_same:
                ctx.violation("relabelled-copy|to_canonical_graph-differs", case, {"automorphisms": aut})
            if not sk_ok:
                ctx.violation("skolemize-de_skolemize|not-isomorphic", case, {})
            if not canon_iso:
                ctx.violation("to_canonical_graph|not-isomorphic-to-input", case, {})
    tabs = None
    for d, codes in by_digest.items():
        if len(codes) > 1:
            cs = sorted(codes)[:2]
            ctx.violation("isomorphic|true-for-non-isomorphic-graphs", {"universe": [kind, n], "pair": cs},
                          {"digest": str(d), "codes": cs})
    for code, ds in by_code.items():
        if len(ds) > 1:
            # find two members with different digests: the canonical mask and any other
            ctx.violation("isomorphic|false-for-isomorphic-graphs", {"universe": [kind, n], "class": code},
                          {"digests": len(ds)})
    for code, m in canon_by_code.items():
        if len(m) > 1:
            ctx.violation("to_canonical_graph|isomorphic-inputs-give-different-graphs",
                          {"universe": [kind, n], "pair": sorted(m.values())[:2]}, {"variants": len(m)})
    ctx.add("evaluations", total)
    ctx.add("distinct_nontrivial", nontriv)
    ctx.cov.setdefault("universes", []).append(
        {"universe": "%s(n=%d)" % (kind, n), "graphs": total, "true_classes": len(by_code), "digest_classes": len(by_digest),
         "graphs_with_nontrivial_automorphism": nontriv})
    return by_code


# ---- decorated universe ---------------------------------------------------

DECOR = [("A", "P", 0), (0, "P", "A"), (0, "Q", 1), (1, "P", "Lx"), (0, "P", "Lx"), ("A", "P", "A"),
         # ground triples that differ only in the kind, language or datatype of a term with one text (next to, not at, the blank nodes)
         ("A", "P", "La"), ("A", "Q", "Lx"), ("A", "Q", "Lx_en"), ("A", "Q", "Lx_fr"), ("A", "Q", "Lx_s"), ("A", "Q", "L1"), ("A", "Q", "L1p")]


def build_decorated(mask, dec, naming=0):
    names = ["b0", "b1"] if naming == 0 else ["k9", "k2"]
    nodes = [BNode(x) for x in names]
    g = Graph(bind_namespaces="none")
    for k, (i, j) in enumerate(u1_edges(2)):
        if mask >> k & 1:
            g.add((nodes[i], P, nodes[j]))
    for s, p, o in dec:
        g.add((nodes[s] if isinstance(s, int) else T(s), T(p), nodes[o] if isinstance(o, int) else T(o)))
    return g


def _decor_batch(cases):
    out = []
    for mask, di in cases:
        dec = [DECOR[i] for i in di]
        g = build_decorated(mask, dec)
        g2 = build_decorated(mask, dec, naming=1)
        r = rows(g)
        out.append((mask, di, repr(canon_rows(r)), _digest(g), _digest(g2), hash(_canon_triples(g)),
                    _canon_triples(g) == _canon_triples(g2), skolem_roundtrip(g) is None))
    return out


def check_decorated(ctx):
    cases = []
    for mask in range(16):
        for r in range(0, 4):
            for di in itertools.combinations(range(len(DECOR)), r):
                cases.append((mask, list(di)))
    res = R.pmap(_decor_batch, R.shards(cases, ctx.jobs * 2), ctx.jobs)
    by_digest, by_code = {}, {}
    n = 0
    for batch in res:
        for mask, di, code, d, d2, ch, canon_same, sk_ok in batch:
            n += 1
            case = {"decorated": [mask, di]}
            by_digest.setdefault(d, {}).setdefault(code, [mask, di])
            by_code.setdefault(code, {}).setdefault(d, [mask, di])
            if d != d2:
                ctx.violation("relabelled-copy|digest-or-to_isomorphic-differs", case, {})
            if not canon_same:
                ctx.violation("relabelled-copy|to_canonical_graph-differs", case, {})
            if not sk_ok:
                ctx.violation("skolemize-de_skolemize|not-isomorphic", case, {})
    for d, codes in by_digest.items():
        if len(codes) > 1:
            pair = [codes[c] for c in sorted(codes)[:2]]
            ctx.violation("isomorphic|true-for-non-isomorphic-graphs|decorated", {"decorated_pair": pair}, {"graphs": pair})
    for code, ds in by_code.items():
        if len(ds) > 1:
            pair = [ds[c] for c in sorted(ds)[:2]]
            ctx.violation("isomorphic|false-for-isomorphic-graphs|decorated", {"decorated_pair": pair}, {"graphs": pair})
    ctx.add("evaluations", n)
    ctx.add("distinct_nontrivial", sum(1 for c, ds in by_code.items()))
    ctx.cov.setdefault("universes", []).append({"universe": "u3(decorated, <=2 bnodes, IRI, literal, 2 predicates)", "graphs": n,
                                                "true_classes": len(by_code), "digest_classes": len(by_digest)})


# ---- named symmetric graphs under systematic relabellings ------------------------

def _named_graphs():
    """(name, n, directed edge list). Undirected graphs are encoded symmetrically."""
    def und(es):
        return list(es) + [(b, a) for a, b in es]
    out = []
    pet = [(i, (i + 1) % 5) for i in range(5)] + [(5 + i, 5 + (i + 2) % 5) for i in range(5)] + [(i, i + 5) for i in range(5)]
    out.append(("petersen", 10, und(pet)))
    out.append(("circulant-C8(1,3)-directed", 8, [(i, (i + 1) % 8) for i in range(8)] + [(i, (i + 3) % 8) for i in range(8)]))
    cyc = lambda off, k: [(off + i, off + (i + 1) % k) for i in range(k)]  # noqa: E731
    out.append(("directed-C3+C4+C5", 12, cyc(0, 3) + cyc(3, 4) + cyc(7, 5)))
    out.append(("2xC3-undirected", 6, und(cyc(0, 3) + cyc(3, 3))))
    out.append(("C6-undirected", 6, und(cyc(0, 6))))
    out.append(("K3,3", 6, und([(i, 3 + j) for i in range(3) for j in range(3)])))
    out.append(("prism", 6, und(cyc(0, 3) + cyc(3, 3) + [(i, i + 3) for i in range(3)])))
    out.append(("cube", 8, und([(i, i ^ b) for i in range(8) for b in (1, 2, 4) if i < i ^ b])))
    out.append(("moebius-ladder-M8", 8, und(cyc(0, 8) + [(i, i + 4) for i in range(4)])))
    out.append(("3xP3-undirected", 9, und([(0, 1), (1, 2), (3, 4), (4, 5), (6, 7), (7, 8)])))
    out.append(("2xK3,3", 12, und([(i, 3 + j) for i in range(3) for j in range(3)] + [(6 + i, 9 + j) for i in range(3) for j in range(3)])))
    out.append(("directed-2xC4", 8, cyc(0, 4) + cyc(4, 4)))
    return out


def _relabellings(n, full):
    """Systematic family: identity, all cyclic shifts, reversal, and (full) all transpositions composed with a shift."""
    ident = list(range(n))
    perms = [ident]
    for k in range(1, n):
        perms.append([(i + k) % n for i in range(n)])
    perms.append(list(reversed(ident)))
    perms.append([(3 * i + 1) % n if n % 3 else (n - 1 - i) for i in range(n)])
    if full:
        for a in range(n):
            for b in range(a + 1, n):
                p = list(ident)
                p[a], p[b] = p[b], p[a]
                perms.append(p)
                perms.append([(x + a + 1) % n for x in p])
    return [p for p in perms if sorted(p) == ident]


def build_named(n, edges, perm, scheme=0):
    names = ["n%d" % i for i in range(n)] if scheme == 0 else ["N%032x" % (7919 * (i + 3)) for i in range(n)]
    g = Graph(bind_namespaces="none")
    es = [(perm[a], perm[b]) for a, b in edges]
    if scheme:
        es.reverse()
    for a, b in es:
        g.add((BNode(names[a]), P, BNode(names[b])))
    return g


def named_case(name, perm, scheme):
    for nm, n, edges in _named_graphs():
        if nm == name:
            break
    else:
        raise ValueError(name)
    g0 = build_named(n, edges, list(range(n)))
    g = build_named(n, edges, perm, scheme)
    if _digest(g) != _digest(g0) or not isomorphic(g0, g):
        return ("isomorphic|false-for-isomorphic-graphs", {"graph": name})
    if _canon_triples(g) != _canon_triples(g0):
        return ("to_canonical_graph|isomorphic-inputs-give-different-graphs", {"graph": name})
    both, first, second = graph_diff(g0, g)
    if len(first) or len(second):
        return ("graph_diff|isomorphic-graphs-have-nonempty-difference", {"graph": name, "first": len(first), "second": len(second)})
    return None


def _named_batch(cases):
    out = []
    for name, perm, scheme in cases:
        v = named_case(name, perm, scheme)
        if v:
            out.append({"sig": v[0], "case": {"named": [name, perm, scheme]}, "detail": v[1]})
    return out, len(cases)


def check_named(ctx, full):
    cases = []
    for name, n, edges in _named_graphs():
        for perm in _relabellings(n, full):
            cases.append((name, perm, 0))
            cases.append((name, perm, 1))
    res = R.pmap(_named_batch, R.shards(cases, ctx.jobs * 4), ctx.jobs)
    for viols, n in res:
        ctx.extend(viols)
        ctx.add("evaluations", n)
        ctx.add("named_graph_relabellings", n)
        ctx.add("distinct_nontrivial", n)
    # pairwise non-isomorphism between the named 6-node cubic/regular pairs that colour refinement cannot separate
    named = {nm: (n, e) for nm, n, e in _named_graphs()}
    for a, b in (("2xC3-undirected", "C6-undirected"), ("K3,3", "prism"), ("cube", "moebius-ladder-M8")):
        ga = build_named(named[a][0], named[a][1], list(range(named[a][0])))
        gb = build_named(named[b][0], named[b][1], list(range(named[b][0])))
        if isomorphic(ga, gb) or isomorphic(gb, ga):
            ctx.violation("isomorphic|true-for-non-isomorphic-graphs", {"named_pair": [a, b]}, {})


# ---- graph_diff over pairs --------------------------------------------------

SAME_ID = URIRef("http://ex.org/same-name")


def _renamed(g):
    """A copy of g (own store) under an explicit identifier: two revisions of one named graph carry the same identifier and are still two graphs."""
    c = Graph(identifier=SAME_ID, bind_namespaces="none")
    for t in g:
        c.add(t)
    return c


def diff_case(kind, n, m1, m2):
    v = _diff_case(build(kind, n, m1), build(kind, n, m2, naming=1))
    if v is None and n <= 3:
        v = _diff_case(_renamed(build(kind, n, m1)), _renamed(build(kind, n, m2, naming=1)))
        if v is not None:
            v = (v[0] + "|graphs-with-the-same-identifier", v[1])
    return v


def _diff_case(g1, g2):
    both, first, second = graph_diff(g1, g2)
    rb, rf, rs = rows(both), rows(first), rows(second)
    if not iso(rb | rf, rows(g1)):
        return ("graph_diff|both+first-not-isomorphic-to-g1", {})
    if not iso(rb | rs, rows(g2)):
        return ("graph_diff|both+second-not-isomorphic-to-g2", {})
    if rf & rs:
        return ("graph_diff|first-and-second-share-a-triple", {"shared": sorted(rf & rs)})
    # direct pair check of isomorphic() against brute force, both directions
    want = iso(rows(g1), rows(g2))
    if isomorphic(g1, g2) != want or isomorphic(g2, g1) != want:
        return ("isomorphic|pair-disagrees-with-brute-force", {"expected": want})
    if want and (rf or rs):
        return ("graph_diff|isomorphic-graphs-have-nonempty-difference", {"first": len(rf), "second": len(rs)})
    return None


def _diff_batch(pairs):
    out = []
    for kind, n, m1, m2 in pairs:
        v = diff_case(kind, n, m1, m2)
        if v:
            out.append({"sig": v[0], "case": {"diff": [kind, n, m1, m2]}, "detail": v[1]})
    return out, len(pairs)


MUTATIONS = ["add", "iadd", "addN", "remove", "isub"]


def reuse_case(mask, k, how):
    """An IsomorphicGraph that has been compared once, is then changed in place (one edge added or removed, through each mutating call) and
    compared again: it must answer as a freshly built one (no digest may survive the change)."""
    edges = u1_edges(3)
    nodes = [BNode("b%d" % i) for i in range(3)]
    g = build("u1", 3, mask)
    ig = to_isomorphic(g)
    first = (ig == to_isomorphic(build("u1", 3, mask, naming=1)))
    h0 = ig.internal_hash()
    i, j = edges[k]
    t = (nodes[i], P, nodes[j])
    removing = how in ("remove", "isub")
    if removing != bool(mask >> k & 1):
        return None, False  # (adding an edge that is there / removing one that is not: nothing changes)
    new_mask = mask & ~(1 << k) if removing else mask | (1 << k)
    if how == "add":
        ig.add(t)
    elif how == "iadd":
        h = Graph(bind_namespaces="none")
        h.add(t)
        ig += h
    elif how == "addN":
        ig.addN([t + (ig,)])
    elif how == "remove":
        ig.remove(t)
    elif how == "isub":
        h = Graph(bind_namespaces="none")
        h.add(t)
        ig -= h
    want = build("u1", 3, new_mask, naming=2)
    fresh = to_isomorphic(want)
    problems = []
    if not first:
        problems.append("first-comparison-wrong")
    if rows(ig) != rows(build("u1", 3, new_mask)):
        return ("isomorphic-graph-reuse|%s|content-wrong" % how, {}), True
    if not (ig == fresh) or ig != fresh:
        problems.append("equal-to-fresh-graph-of-new-content-is-false")
    if ig.internal_hash() != fresh.internal_hash():
        problems.append("digest-differs-from-fresh-graph")
    old = to_isomorphic(build("u1", 3, mask, naming=1))
    if (ig == old) != iso(rows(want), rows(build("u1", 3, mask))):
        problems.append("comparison-with-old-content-wrong")
    if problems:
        return ("isomorphic-graph-reuse|%s|%s" % (how, problems[0]), {"problems": problems, "mask": mask, "edge": k, "digest_before": str(h0)}), True
    return None, True


def _reuse_batch(items):
    viols = []
    n = 0
    for mask, k, how in items:
        v, counted = reuse_case(mask, k, how)
        if counted:
            n += 1
        if v:
            viols.append({"sig": v[0], "case": {"reuse": [mask, k, how]}, "detail": v[1]})
    return viols, n


def run(ctx):
    thorough = ctx.tier == "thorough"
    items = [(m, k, how) for m in range(512) for k in range(9) for how in MUTATIONS]
    for viols, n in R.pmap(_reuse_batch, R.shards(items, ctx.jobs * 4), ctx.jobs):
        ctx.extend(viols)
        ctx.add("evaluations", n)
        ctx.add("isomorphic_graph_reuse_cases", n)
    classes3 = check_universe(ctx, "u1", 3)
    check_universe(ctx, "u1", 4)
    check_universe(ctx, "u2", 5)
    check_universe(ctx, "u2", 6)
    check_decorated(ctx)
    check_named(ctx, full=thorough)
    if thorough:
        masks = list(range(512))
        pairs = [("u1", 3, a, b) for a in masks for b in masks]
    else:
        reps = sorted(classes3)
        pairs = [("u1", 3, a, b) for a in reps for b in reps]
        pairs += [("u1", 2, a, b) for a in range(16) for b in range(16)]
    res = R.pmap(_diff_batch, R.shards(pairs, ctx.jobs * 4), ctx.jobs)
    np_ = 0
    for viols, n in res:
        ctx.extend(viols)
        np_ += n
    ctx.cov["graph_diff_pairs"] = np_
    ctx.add("evaluations", np_)
    ctx.cov["exhaustive"] = True
    ctx.cov["rule"] = ("Universes: u1 = every digraph with self-loops on n blank nodes, one predicate; u2 = every undirected simple graph on n blank "
                       "nodes (symmetric encoding); u3 = u1(2) decorated with IRI/literal/second-predicate triples (<=3); named symmetric graphs (Petersen, circulant, disjoint cycles, K3,3, prism, cube, Moebius ladder, ...) under a systematic family of relabellings. rdflib's digest partition "
                       "vs the true partition (min adjacency code over all permutations) decides every pair; each graph also relabelled+re-inserted; "
                       "graph_diff/isomorphic() on explicit pairs. distinct_nontrivial = graphs with a non-trivial automorphism (u1,u2) + decorated classes.")
    ctx.sample({"universe": ["u2", 5], "mask": 0b1111100000, "note": "undirected graph on 5 bnodes, edge bitmask over pairs i<j"})
    ctx.sample({"diff": ["u1", 3, 17, 273]})
    ctx.assumptions += ["small scope: <=4 (digraph) / <=6 (undirected) blank nodes, one predicate; hash collisions of SHA-256 are not explored"]


def replay(ctx, case):
    viols = []
    if "diff" in case:
        v = diff_case(*case["diff"])
        if v:
            viols.append({"sig": v[0], "case": case, "detail": v[1]})
    elif "mask" in case:
        kind, n = case["universe"]
        c2 = R.Ctx(ID, "quick", 0, 1)
        # re-run the single graph against its relabelled copy
        for row in _universe_batch((kind, n, [case["mask"]])):
            mask, code, aut, d, copy_ok, ch, canon_same, sk_ok, canon_iso = row
            if not copy_ok:
                viols.append({"sig": "relabelled-copy|digest-or-to_isomorphic-differs", "case": case, "detail": {}})
            if not canon_same:
                viols.append({"sig": "relabelled-copy|to_canonical_graph-differs", "case": case, "detail": {}})
            if not sk_ok:
                viols.append({"sig": "skolemize-de_skolemize|not-isomorphic", "case": case, "detail": {}})
            if not canon_iso:
                viols.append({"sig": "to_canonical_graph|not-isomorphic-to-input", "case": case, "detail": {}})
    elif "pair" in case:
        kind, n = case["universe"]
        a, b = case["pair"]
        g1, g2 = build(kind, n, a), build(kind, n, b)
        want = iso(rows(g1), rows(g2))
        if isomorphic(g1, g2) != want:
            viols.append({"sig": "isomorphic|true-for-non-isomorphic-graphs" if not want else "isomorphic|false-for-isomorphic-graphs",
                          "case": case, "detail": {"expected": want}})
        if want and _canon_triples(g1) != _canon_triples(g2):
            viols.append({"sig": "to_canonical_graph|isomorphic-inputs-give-different-graphs", "case": case, "detail": {}})
    elif "class" in case:
        kind, n = case["universe"]
        edges = u1_edges(n) if kind == "u1" else u2_edges(n)
        tabs = perm_tables(n, edges, kind == "u2")
        code = case["class"]
        g1 = build(kind, n, code)
        for tab in tabs:
            m = 0
            for k in range(len(edges)):
                if code >> k & 1:
                    m |= 1 << tab[k]
            if not isomorphic(g1, build(kind, n, m)):
                viols.append({"sig": "isomorphic|false-for-isomorphic-graphs", "case": case, "detail": {"other_mask": m}})
                break
    elif "named" in case:
        v = named_case(*case["named"])
        if v:
            viols.append({"sig": v[0], "case": case, "detail": v[1]})
    elif "named_pair" in case:
        named = {nm: (n, e) for nm, n, e in _named_graphs()}
        a, b = case["named_pair"]
        ga = build_named(named[a][0], named[a][1], list(range(named[a][0])))
        gb = build_named(named[b][0], named[b][1], list(range(named[b][0])))
        if isomorphic(ga, gb):
            viols.append({"sig": "isomorphic|true-for-non-isomorphic-graphs", "case": case, "detail": {}})
    elif "reuse" in case:
        v, _ = reuse_case(*case["reuse"])
        if v:
            viols.append({"sig": v[0], "case": case, "detail": v[1]})
    elif "decorated_pair" in case:
        (m1, d1), (m2, d2) = case["decorated_pair"]
        g1, g2 = build_decorated(m1, [DECOR[i] for i in d1]), build_decorated(m2, [DECOR[i] for i in d2])
        want = iso(rows(g1), rows(g2))
        got = (_digest(g1) == _digest(g2), isomorphic(g1, g2))
        if got != (want, want):
            viols.append({"sig": "isomorphic|%s|decorated" % ("true-for-non-isomorphic-graphs" if not want else "false-for-isomorphic-graphs"), "case": case,
                          "detail": {"brute_force": want, "digest_equal": got[0], "isomorphic()": got[1]}})
    elif "decorated" in case:
        for row in _decor_batch([tuple(case["decorated"])]):
            mask, di, code, d, d2, ch, canon_same, sk_ok = row
            if d != d2:
                viols.append({"sig": "relabelled-copy|digest-or-to_isomorphic-differs", "case": case, "detail": {}})
            if not canon_same:
                viols.append({"sig": "relabelled-copy|to_canonical_graph-differs", "case": case, "detail": {}})
            if not sk_ok:
                viols.append({"sig": "skolemize-de_skolemize|not-isomorphic", "case": case, "detail": {}})
    return viols


META = {
    "text": "Exhaustive enumeration of complete universes of blank-node structures (all digraphs on <=3/4 nodes, all undirected graphs on <=5/6 "
            "nodes incl. cycles, complete bipartite, disjoint identical components and regular pairs, plus decorated graphs). The partition "
            "induced by rdflib's isomorphism digest is compared with the true isomorphism partition computed by brute force over all node "
            "permutations, which decides every pair of the universe in both directions; canonical graphs must coincide within a class; "
            "graph_diff laws and skolemise round trip are checked on explicit pairs / every graph.",
    "note": "Small scope (<=6 blank nodes, one or two predicates); oracle = brute-force permutation search written for this check; SHA-256 "
            "collisions out of scope. Decorated universe: 13 decorations incl. one text as plain / @en / @fr / xsd:string / IRI-valued literal; "
            "graph_diff and isomorphic() also on two graphs that carry one identifier.",
    "technique": "exhaustive enumeration of graph universes; digest partition vs brute-force isomorphism partition",
}
