"""C11 - property paths denote the relation SPARQL defines, for every binding of the ends.

Every path over {P, Q} up to an operator depth x every graph with <= 3 triples over a node set that
contains a falsy literal x every bound/unbound combination of the ends (incl. a term absent from
the graph), compared with relation algebra (composition, union, converse, closure). Through
Graph.triples/subjects/objects, a union Dataset, a ReadOnlyGraphAggregate and (slice) SPARQL.
"""
from __future__ import annotations

import itertools
import warnings

from rdflib import Dataset, Graph
from rdflib.graph import ReadOnlyGraphAggregate
from rdflib.paths import AlternativePath, InvPath, MulPath, NegatedPath, SequencePath

from .. import run as R
from .. import seams
from ..canon import tkey
from ..ref import relalg
from ..vocab import T, is_falsy

ID = "C11"
LEVEL = "exploration"

PREDS = ["P", "Q"]
SUBJECTS = ["A", "B"]
OBJECTS = ["A", "B", "Lempty", "Lx"]
NODES = ["A", "B", "Lempty", "Lx"]
ABSENT = "Z"
ATOMS = [("iri", "P"), ("iri", "Q"), ("inv", ("iri", "P")), ("inv", ("iri", "Q")),
         ("neg", ["P"], []), ("neg", ["P", "Q"], []), ("neg", [], ["P"]), ("neg", ["P"], ["Q"])]


def paths_of_depth(d):
    """All paths with exactly <= d operator applications on top of the atoms (atoms = depth 0)."""
    levels = [list(ATOMS)]
    for _ in range(d):
        prev = [p for lv in levels for p in lv]
        last = levels[-1]
        new = []
        for e in last:
            new += [("inv", e), ("star", e), ("plus", e), ("opt", e)]
        for a in prev:
            for b in prev:
                if a in last or b in last:
                    new.append(("seq", a, b))
                    new.append(("alt", a, b))
        levels.append(new)
    return [p for lv in levels for p in lv]


def to_rdflib(p):
    t = p[0]
    if t == "iri":
        return T(p[1])
    if t == "inv":
        return InvPath(to_rdflib(p[1]))
    if t == "seq":
        return SequencePath(to_rdflib(p[1]), to_rdflib(p[2]))
    if t == "alt":
        return AlternativePath(to_rdflib(p[1]), to_rdflib(p[2]))
    if t in ("star", "plus", "opt"):
        return MulPath(to_rdflib(p[1]), {"star": "*", "plus": "+", "opt": "?"}[t])
    if t == "neg":
        members = [T(x) for x in p[1]] + [InvPath(T(x)) for x in p[2]]
        return NegatedPath(members[0] if len(members) == 1 else AlternativePath(*members))
    raise ValueError(p)


def to_sparql(p):
    t = p[0]
    if t == "iri":
        return "<%s>" % T(p[1])
    if t == "inv":
        return "^(%s)" % to_sparql(p[1])
    if t == "seq":
        return "(%s)/(%s)" % (to_sparql(p[1]), to_sparql(p[2]))
    if t == "alt":
        return "(%s)|(%s)" % (to_sparql(p[1]), to_sparql(p[2]))
    if t in ("star", "plus", "opt"):
        return "(%s)%s" % (to_sparql(p[1]), {"star": "*", "plus": "+", "opt": "?"}[t])
    if t == "neg":
        ms = ["<%s>" % T(x) for x in p[1]] + ["^<%s>" % T(x) for x in p[2]]
        return "!(%s)" % "|".join(ms)


def top_is_closure(p):
    return p[0] in ("star", "plus", "opt")


def shape(p):
    """Coarse shape of a path for signatures: operator skeleton with atoms abstracted."""
    t = p[0]
    if t == "iri":
        return "p"
    if t == "neg":
        return "!(%s%s)" % ("p" if p[1] else "", "^p" if p[2] else "")
    if t == "inv":
        return "^" + shape(p[1])
    if t in ("star", "plus", "opt"):
        return "(%s)%s" % (shape(p[1]), {"star": "*", "plus": "+", "opt": "?"}[t])
    return "(%s%s%s)" % (shape(p[1]), "/" if t == "seq" else "|", shape(p[2]))


ALL_TRIPLES = [(s, p, o) for s in SUBJECTS for p in PREDS for o in OBJECTS]


def graphs_upto(k):
    out = []
    for r in range(k + 1):
        for sub in itertools.combinations(ALL_TRIPLES, r):
            out.append(list(sub))
    return out


def ends():
    terms = NODES + [ABSENT]
    out = [(None, None)]
    out += [(s, None) for s in terms]
    out += [(None, o) for o in terms]
    out += [(s, o) for s in terms for o in terms]
    return out


def build(config, triples):
    with warnings.catch_warnings():
        warnings.simplefilter("ignore")
        if config == "graph":
            g = Graph(bind_namespaces="none")
            for t in triples:
                g.add(T(t))
            return g
        if config == "dataset-union":
            ds = Dataset(default_union=True)
            for i, t in enumerate(triples):
                if i % 2:
                    ds.add(T(t) + (T("G1"),))
                else:
                    ds.add(T(t))
            return ds
        if config == "aggregate":
            g1, g2 = Graph(bind_namespaces="none"), Graph(bind_namespaces="none")
            for i, t in enumerate(triples):
                (g2 if i % 2 else g1).add(T(t))
            return ReadOnlyGraphAggregate([g1, g2])
    raise ValueError(config)


def end_class(s, o, nodes):
    def c(x):
        if x is None:
            return "unbound"
        if x == ABSENT or x not in nodes:
            return "absent-falsy" if is_falsy(x) else "absent"
        return "falsy" if is_falsy(x) else "bound"
    return "%s,%s" % (c(s), c(o))


def has_inverse_negated(p):
    if p[0] == "neg":
        return bool(p[2])
    return any(has_inverse_negated(x) for x in p[1:] if isinstance(x, tuple))


def top_op(p):
    return {"iri": "iri", "neg": "negated-set", "inv": "inverse", "seq": "sequence", "alt": "alternative",
            "star": "closure", "plus": "closure", "opt": "closure"}[p[0]]


def _sig(config, api, kind, p, ec):
    """Signature class of a violation. Paths containing a negated property set with an inverse member form one
    class per API family (one known call site, NegatedPath.eval / the SPARQL translation of '!^iri')."""
    fam = "sparql" if api == "sparql" else "graph-api"
    if has_inverse_negated(p):
        return "negated-set-with-inverse-member|%s|%s" % (fam, "raises" if kind.startswith("raises") else "pairs-differ")
    return "%s|%s|%s|top=%s|ends=%s" % (config, api, kind, top_op(p), ec)


def check_case(config, triples, p, s, o, g=None, rp=None, memo=None, api="triples", horizon=5.0):
    """One evaluation; returns (sig, detail) or None."""
    if g is None:
        g = build(config, triples)
    if rp is None:
        rp = to_rdflib(p)
    key_of = {n: tkey(T(n)) for n in NODES + [ABSENT]}
    nodes = relalg.nodes_of(triples)
    exp = {(key_of[x], key_of[y]) for x, y in relalg.answer(p, triples, s, o, nodes, memo)}
    st, ot = (None if s is None else T(s)), (None if o is None else T(o))
    try:
        with seams.watchdog(horizon):
            if api == "triples":
                got_list = [(tkey(a), tkey(b)) for a, _, b in g.triples((st, rp, ot))]
            elif api == "subjects":
                got_list = [(tkey(a), key_of[o]) for a in g.subjects(rp, ot)]
            elif api == "objects":
                got_list = [(key_of[s], tkey(b)) for b in g.objects(st, rp)]
            elif api == "sparql" and s is not None and o is not None:
                q = "ASK { %s %s %s }" % (st.n3(), to_sparql(p), ot.n3())
                got_list = [(tkey(st), tkey(ot))] if g.query(q).askAnswer else []
            elif api == "sparql":
                q = "SELECT ?s ?o WHERE { %s %s %s }" % (
                    "?s" if s is None else st.n3(), to_sparql(p), "?o" if o is None else ot.n3())
                got_list = []
                for row in g.query(q):
                    a = row[0] if s is None else st
                    b = row[1] if o is None else ot
                    got_list.append((tkey(a), tkey(b)))
    except seams.Timeout:
        return ("%s|%s|does-not-terminate" % (config, api), {"horizon_s": horizon, "shape": shape(p)})
    except Exception as e:  # noqa: BLE001
        return (_sig(config, api, "raises-" + type(e).__name__, p, end_class(s, o, nodes)), {"exc": repr(e)[:300], "shape": shape(p)})
    got = set(got_list)
    ec = end_class(s, o, nodes)
    if got != exp:
        kind = "extra" if got - exp and not exp - got else "missing" if exp - got and not got - exp else "extra+missing"
        return (_sig(config, api, "pairs-" + kind, p, ec), {"got": sorted(got), "expected": sorted(exp), "shape": shape(p)})
    if top_is_closure(p) and len(got_list) != len(got) and api != "sparql":
        return (_sig(config, api, "duplicates-in-closure", p, ec), {"got": sorted(got_list), "shape": shape(p)})
    return None


def compositions(p, X):
    """Every way of the API to build a larger path from the path object X (AST p): operators and constructors, X as left and as right operand.
    Returns [(AST of the composed path, how it was built, the composed rdflib path)]."""
    out = []
    for r in (("iri", "Q"), ("inv", ("iri", "P"))):
        Rr = to_rdflib(r)
        out += [(("seq", p, r), "X / r", X / Rr), (("seq", r, p), "r / X", Rr / X), (("alt", p, r), "X | r", X | Rr), (("alt", r, p), "r | X", Rr | X),
                (("seq", p, r), "SequencePath(X, r)", SequencePath(X, Rr)), (("alt", p, r), "AlternativePath(X, r)", AlternativePath(X, Rr)),
                (("seq", ("seq", p, r), r), "(X / r) / r", (X / Rr) / Rr), (("alt", ("alt", p, r), r), "(X | r) | r", (X | Rr) | Rr)]
    out += [(("inv", p), "~X", ~X), (("star", p), "X * '*'", X * "*"), (("plus", p), "X * '+'", X * "+"), (("opt", p), "X * '?'", X * "?")]
    if p[0] == "iri":
        out.append((("neg", [p[1]], []), "-X", -X))
    if p[0] == "alt" and p[1][0] == "iri" and p[2][0] == "iri":
        out.append((("neg", [p[1][1], p[2][1]], []), "-X", -X))
        for r in (("iri", "Q"),):
            out.append((("alt", p, r), "X | r after -X", X | to_rdflib(r)))
    return out


def check_composition(config, triples, p, g=None, memo=None, horizon=5.0):
    """Build larger paths from one path object and evaluate them and, afterwards, the object itself again: composing must not change what an operand denotes."""
    if g is None:
        g = build(config, triples)
    nodes = relalg.nodes_of(triples)
    key_of = {n: tkey(T(n)) for n in NODES + [ABSENT]}

    def ev(rp):
        with seams.watchdog(horizon):
            return {(tkey(a), tkey(b)) for a, _, b in g.triples((None, rp, None))}

    def ref(ast):
        return {(key_of[x], key_of[y]) for x, y in relalg.answer(ast, triples, None, None, nodes, memo)}

    X = to_rdflib(p)
    viols = []
    try:
        want = ref(p)
        if ev(X) != want:
            return []  # (reported by the main sweep)
        for ast, how, obj in compositions(p, X):
            if has_inverse_negated(ast):
                continue
            got = ev(obj)
            if got != ref(ast):
                viols.append(("%s|composition|%s|composed-path-pairs-differ" % (config, how), {"path": shape(ast), "got": sorted(got), "expected": sorted(ref(ast))}))
            again = ev(X)
            if again != want:
                viols.append(("%s|composition|%s|operand-denotes-another-relation-afterwards" % (config, how),
                              {"operand": shape(p), "before": sorted(want), "after": sorted(again)}))
                break
    except seams.Timeout:
        viols.append(("%s|composition|does-not-terminate" % config, {"shape": shape(p)}))
    except Exception as e:  # noqa: BLE001
        viols.append(("%s|composition|raises-%s" % (config, type(e).__name__), {"exc": repr(e)[:300], "shape": shape(p)}))
    return viols


def ends_reduced():
    terms = NODES + [ABSENT]
    return [(None, None)] + [(s, None) for s in terms] + [(None, o) for o in terms] + [(s, s) for s in terms]


def _batch(arg):
    config, graphs, paths, apis = arg[:4]
    viols = []
    n = 0
    nontriv = 0
    if apis == ["composition"]:
        for triples in graphs:
            g = build(config, triples)
            memo = {}
            for p in paths:
                n += 1
                nontriv += 1 if triples else 0
                for sig, det in check_composition(config, triples, p, g, memo):
                    viols.append({"sig": sig, "case": {"composition": [config, triples, p]}, "detail": det})
        return viols, n, nontriv
    E = ends_reduced() if (len(arg) > 4 and arg[4] == "reduced-ends") else ends()
    rpaths = [(p, to_rdflib(p)) for p in paths]
    for triples in graphs:
        g = build(config, triples)
        nodes = relalg.nodes_of(triples)
        memo = {}
        for p, rp in rpaths:
            r = relalg.rel(p, triples, nodes, memo)
            for (s, o) in E:
                for api in apis:
                    if api == "subjects" and not (o is not None and s is None):
                        continue
                    if api == "objects" and not (s is not None and o is None):
                        continue
                    n += 1
                    if r or (s is not None and (is_falsy(s) or s == ABSENT)) or (o is not None and (is_falsy(o) or o == ABSENT)):
                        nontriv += 1
                    v = check_case(config, triples, p, s, o, g, rp, memo, api)
                    if v:
                        viols.append({"sig": v[0], "case": {"path": [config, triples, p, s, o, api]}, "detail": v[1]})
    return viols, n, nontriv


def run(ctx):
    thorough = ctx.tier == "thorough"
    d1 = paths_of_depth(1)
    d2 = paths_of_depth(2)
    g3 = graphs_upto(3)
    g2 = graphs_upto(2)
    work = []
    jobs = ctx.jobs
    # depth <= 1 on all graphs with <= 3 triples, plain Graph, all three APIs
    for sh in R.shards(g3, jobs * 4):
        work.append(("graph", sh, d1, ["triples"] + (["subjects", "objects"] if thorough else [])))
    if not thorough:
        for sh in R.shards(g2, jobs * 2):
            work.append(("graph", sh, d1, ["subjects", "objects"]))
    # closures (* + ?) over every depth-1 path on all graphs with <= 3 triples (the traversal code is where graph shape matters)
    d1_nonatom = [p for p in d1 if p not in ATOMS]
    closures = [(op, e) for e in d1_nonatom for op in ("star", "plus", "opt")]
    for sh in R.shards(g3, jobs * 6):
        work.append(("graph", sh, closures, ["triples"]) + (() if thorough else ("reduced-ends",)))
    # union dataset and aggregate: depth <= 1 on graphs with <= 2 (q) / 3 (t) triples
    for cfg in ("dataset-union", "aggregate"):
        for sh in R.shards(g3 if thorough else g2, jobs * 2):
            work.append((cfg, sh, d1, ["triples"]))
    # depth 2 on a fixed family of graphs
    fam = [g for g in g3 if len(g) == 3][:: (13 if thorough else 139)] + [g for g in g2 if len(g) == 2][:: (7 if thorough else 41)]
    for gsh in R.shards(fam, len(fam)):
        for psh in R.shards(d2, 16 if thorough else 8):
            work.append(("graph", gsh, psh, ["triples"]) + (() if thorough else ("reduced-ends",)))
    # composing paths (operator and constructor API, operand left and right) must not change what the operand denotes
    comp_paths = [p for p in d1 if not has_inverse_negated(p) and p[0] != "neg"]
    for sh in R.shards(g3 if thorough else g2, jobs * 2):
        work.append(("graph", sh, comp_paths, ["composition"]))
    # SPARQL slice: depth <= 1 x a family of graphs
    sp = [g for g in g3 if len(g) in (2, 3)][:: (11 if thorough else 61)]
    for gsh in R.shards(sp, len(sp)):
        work.append(("graph", gsh, d1, ["sparql"]))
    res = R.pmap(_batch, work, ctx.jobs)
    for viols, n, nt in res:
        ctx.extend(viols)
        ctx.add("evaluations", n)
        ctx.add("distinct_nontrivial", nt)
    ctx.cov["paths_depth1"] = len(d1)
    ctx.cov["paths_depth2"] = len(d2)
    ctx.cov["closures_over_depth1_on_all_graphs"] = len(closures)
    ctx.cov["graphs_upto3"] = len(g3)
    ctx.cov["depth2_graph_family"] = len(fam)
    ctx.cov["sparql_graph_family"] = len(sp)
    ctx.cov["exhaustive"] = True
    ctx.cov["rule"] = ("Paths: atoms {P, Q, ^P, ^Q, !P, !(P|Q), !^P, !(P|^Q)} closed under ^ * + ? / | to operator depth 1 (%d paths) on every graph with <=3 triples over "
                       "subjects {A,B} x {P,Q} x objects {A,B,\"\",\"x\"} (%d graphs) x 36 end bindings (5 terms incl. an absent one, both ends), through "
                       "Graph.triples/subjects/objects, union Dataset and ReadOnlyGraphAggregate; every closure of a depth-1 path on all those graphs; depth 2 (%d paths) on a fixed family of %d graphs; SPARQL "
                       "SELECT on %d graphs; for every depth-<=1 path object, every larger path the operator / constructor API builds from it (operand left and right) is evaluated and the operand re-evaluated. Oracle: relation algebra. Non-trivial: non-empty relation or a falsy/absent bound end." % (
                           len(d1), len(g3), len(d2), len(fam), len(sp)))
    ctx.sample({"path": ["graph", [["A", "P", "Lempty"]], ["plus", ["iri", "P"]], "A", "Lempty", "triples"]})
    ctx.assumptions += ["alternative and sequence paths are compared as sets; the no-duplicates clause is applied to closures (top-level * + ?)",
                        "termination decided with a 5 s horizon per call"]


def _tuplify(p):
    if isinstance(p, list):
        if p and p[0] == "neg":
            return ("neg", list(p[1]), list(p[2]))
        return tuple(_tuplify(x) for x in p)
    return p


def replay(ctx, case):
    if "composition" in case:
        config, triples, p = case["composition"]
        return [{"sig": sig, "case": case, "detail": det} for sig, det in check_composition(config, [tuple(t) for t in triples], _tuplify(p), horizon=30.0)]
    config, triples, p, s, o, api = case["path"]
    triples = [tuple(t) for t in triples]
    v = check_case(config, triples, _tuplify(p), s, o, api=api, horizon=30.0)
    return [{"sig": v[0], "case": case, "detail": v[1]}] if v else []


META = {
    "text": "Exhaustive enumeration of property paths (all operator nestings to depth 1 on every graph with <=3 triples, depth 2 on a fixed graph family) "
            "and of all 36 bound/unbound end combinations over a node set containing a falsy literal and an absent term; the pairs returned by "
            "Graph.triples / subjects / objects, by a union Dataset, by a ReadOnlyGraphAggregate and by SPARQL are compared with relation algebra "
            "(composition, union, converse, reflexive/transitive closure), closures must terminate and be duplicate-free.",
    "note": "Small scope: 2 predicates, 4 node terms + 1 absent term, <=3 triples; alternative/sequence results compared as sets; 5 s horizon.",
    "technique": "exhaustive enumeration of paths x graphs x end bindings against a relation-algebra reference",
}
