"""C08 - solution modifiers and aggregates follow SPARQL (DISTINCT, ORDER, slice, GROUP).

Base patterns that yield duplicates, unbound variables and mixed term kinds x the complete product of a
modifier menu (DISTINCT, projection subsets, ORDER BY with 1-2 keys asc/desc/expression, LIMIT, OFFSET,
GROUP BY none/implicit/one/two keys, every aggregate with and without DISTINCT, inside an expression,
HAVING) x a family of data graphs incl. the empty graph. Reference: the C04 evaluator for the pattern,
plus 18.5 modifiers/aggregates implemented here.
"""
from __future__ import annotations

import itertools
import warnings
from collections import Counter
from decimal import Decimal

import rdflib
from rdflib import BNode, Graph, Literal, URIRef
from rdflib.namespace import XSD
from rdflib.plugins.sparql import prepareQuery

from .. import run as R
from .. import seams
from ..canon import tkey
from ..ref import sparql_ref as S

ID = "C08"
LEVEL = "exploration"

EX = "http://ex.org/"
A, B, C, P, Q = ("I", EX + "a"), ("I", EX + "b"), ("I", EX + "c"), ("I", EX + "p"), ("I", EX + "q")
XI, XD, XF, XS = str(XSD.integer), str(XSD.decimal), str(XSD.double), str(XSD.string)


def I(n):  # noqa: E743
    return ("L", str(n), XI, None)


def D(s):
    return ("L", s, XD, None)


def F(s):
    return ("L", s, XF, None)


def STR(s):
    return ("L", s, None, None)


BN = ("B", "bn1")
SV, VV, WV = ("var", "s"), ("var", "v"), ("var", "w")

PATTERNS = {
    "spv": ("bgp", [(SV, P, VV)]),
    "spv-opt-w": ("opt", ("bgp", [(SV, P, VV)]), ("bgp", [(SV, Q, WV)])),
    "union": ("union", ("bgp", [(SV, P, VV)]), ("bgp", [(SV, Q, VV)])),
    "sqw": ("bgp", [(SV, Q, WV)]),
}

GRAPHS = {
    "empty": [],
    "ints": [(A, P, I(1)), (A, P, I(2)), (B, P, I(2)), (C, P, I(3)), (B, Q, STR("x")), (A, Q, STR("y"))],
    "dups": [(A, P, I(1)), (B, P, I(1)), (C, P, I(1)), (A, Q, STR("b")), (B, Q, STR("a")), (C, Q, STR("a"))],
    "promote": [(A, P, I(1)), (A, P, D("1.5")), (B, P, I(2)), (B, P, F("2.5E0")), (C, P, D("0.5"))],
    "mixed": [(A, P, I(2)), (A, Q, A), (B, Q, BN), (C, Q, STR("z")), (B, P, I(1)), (C, Q, I(5))],
    "single": [(A, P, I(7))],
    "nonnum": [(A, P, I(1)), (A, P, A), (B, P, STR("s")), (B, P, I(2))],
    "strings": [(A, Q, STR("b")), (A, Q, STR("a")), (B, Q, STR("c")), (A, P, I(1))],
}


# a complete family next to the hand-picked graphs: every graph with <= k triples over this universe (named "u:<indices>")
UNIVERSE = [(s_, p_, o_) for s_ in (A, B) for p_ in (P, Q) for o_ in (I(1), I(2), I(0), D("1.5"), STR("a"), STR(""), A)]


def universe_names(k):
    out = []
    for r in range(1, k + 1):
        for idx in itertools.combinations(range(len(UNIVERSE)), r):
            out.append("u:" + ",".join(map(str, idx)))
    return out


def graph_triples(gname):
    if gname.startswith("u:"):
        return [UNIVERSE[int(i)] for i in gname[2:].split(",")]
    return GRAPHS[gname]


_GRAPH_CACHE = {}
_QUERY_CACHE = {}
_FRESH = [False]  # True: parse the query text anew for every evaluation (used to re-decide every violation)


def graph_for(gname):
    if _FRESH[0]:
        return build_graph(graph_triples(gname))
    if gname not in _GRAPH_CACHE:
        if len(_GRAPH_CACHE) > 4000:
            _GRAPH_CACHE.clear()
        _GRAPH_CACHE[gname] = build_graph(graph_triples(gname))
    return _GRAPH_CACHE[gname]


def mkterm(k):
    if k[0] == "I":
        return URIRef(k[1])
    if k[0] == "B":
        return BNode(k[1])
    return Literal(k[1], datatype=None if k[2] is None else URIRef(k[2]), lang=k[3])


def build_graph(triples):
    g = Graph(bind_namespaces="none")
    for t in triples:
        g.add(tuple(mkterm(x) for x in t))
    return g


# ---- numeric helpers -------------------------------------------------------------

RANK = {XI: 0, XD: 1, XF: 2}


def numval(k):
    """(rank, python value) of a numeric literal key, else None."""
    if k is None or k[0] != "L" or k[2] not in RANK:
        return None
    try:
        if k[2] == XI:
            return (0, int(k[1]))
        if k[2] == XD:
            return (1, Decimal(k[1]))
        return (2, float(k[1]))
    except Exception:
        return None


def num_equal(a, b):
    """Same datatype and numerically equal (lexical forms may differ: 4.50 vs 4.5)."""
    if a == b:
        return True
    na, nb = numval(a), numval(b)
    if na is None or nb is None or na[0] != nb[0]:
        return False
    if na[0] == 2:
        return abs(na[1] - nb[1]) <= 1e-9 * max(1.0, abs(na[1]))
    return na[1] == nb[1]


def mk_num(rank, v):
    if rank == 0:
        return ("L", str(int(v)), XI, None)
    if rank == 1:
        return ("L", format(Decimal(v), "f"), XD, None)
    return ("L", repr(float(v)), XF, None)


def promote(vals):
    rank = max(r for r, _ in vals)
    if rank == 2:
        return rank, [float(v) for _, v in vals]
    if rank == 1:
        return rank, [Decimal(v) for _, v in vals]
    return rank, [v for _, v in vals]


# ---- ordering (SPARQL 15.1): pairs the Recommendation orders ----------------------

def kind_rank(k):
    if k is None:
        return 0
    return {"B": 1, "I": 2, "L": 3}[k[0]]


def spec_less(a, b):
    """True/False if the Recommendation orders a before b / not; None if it says nothing."""
    ra, rb = kind_rank(a), kind_rank(b)
    if ra != rb:
        return ra < rb
    if a is None:
        return False
    if a[0] == "I":
        return a[1] < b[1]
    if a[0] == "B":
        return None
    na, nb = numval(a), numval(b)
    if na is not None and nb is not None:
        return float(na[1]) < float(nb[1])
    sa = a[2] in (None, XS) and a[3] is None
    sb = b[2] in (None, XS) and b[3] is None
    if sa and sb:
        return a[1] < b[1]
    return None


def key_less(ka, kb, descs):
    """Lexicographic 'row a must come before row b' over several sort keys; None = unconstrained."""
    for x, y, desc in zip(ka, kb, descs):
        if x == y or (numval(x) is not None and numval(y) is not None and float(numval(x)[1]) == float(numval(y)[1])):
            continue
        lt = spec_less(x, y)
        gt = spec_less(y, x)
        if lt is None or gt is None:
            return None
        if not lt and not gt:
            continue
        return (lt if not desc else gt)
    return False


# ---- aggregates (18.5.1) ---------------------------------------------------------------

def aggregate(name, distinct, values, star_count, sep=" "):
    """values: list of bound term keys of the argument over the group (errors/unbound removed). Returns key or None (error)."""
    vals = list(values)
    if distinct:
        seen, out = [], []
        for v in vals:
            if not any(v == u or num_equal(v, u) and False for u in seen):
                seen.append(v)
                out.append(v)
        vals = out
    if name == "COUNT*":
        return I(star_count)
    if name == "COUNT":
        return I(len(vals))
    if name in ("SUM", "AVG"):
        nums = [numval(v) for v in vals]
        if any(n is None for n in nums):
            return None
        if not nums:
            return I(0)
        rank, ps = promote(nums)
        total = sum(ps[1:], ps[0])
        if name == "SUM":
            return mk_num(rank, total)
        if rank == 2:
            return mk_num(2, total / len(ps))
        return mk_num(1, Decimal(total) / Decimal(len(ps)))
    if name in ("MIN", "MAX"):
        if not vals:
            return None
        nums = [numval(v) for v in vals]
        if any(n is None for n in nums):
            if all(v[0] == "I" for v in vals):
                # IRIs are ordered as their strings (15.1)
                return ("I", (min if name == "MIN" else max)(v[1] for v in vals))
            if all(v[0] == "L" and v[2] in (None, XS) and v[3] is None for v in vals):
                return ("ONEOF", [v for v in vals if v[1] == (min if name == "MIN" else max)(x[1] for x in vals)])
            # mixed kinds / datatypes: the order is only partly fixed; whatever it is, the extremum is one of the group's own values
            return ("ONEOF", vals)
        best = vals[0]
        for v in vals[1:]:
            if (float(numval(v)[1]) < float(numval(best)[1])) == (name == "MIN") and float(numval(v)[1]) != float(numval(best)[1]):
                best = v
        return ("NUMVAL", float(numval(best)[1]))
    if name == "SAMPLE":
        if not vals:
            return None
        return ("ONEOF", vals)
    if name == "GROUP_CONCAT":
        if any(not (v[0] == "L" and v[2] in (None, XS)) for v in vals):
            return "ANY"
        return ("TOKENS", sep, Counter(v[1] for v in vals))
    raise ValueError(name)


def agg_matches(want, got):
    """got: term key or None."""
    if want == "ANY":
        return True
    if want is None:
        return got is None
    if got is None:
        return False
    if isinstance(want, tuple) and want and want[0] == "ONEOF":
        return any(got == v or num_equal(got, v) for v in want[1])
    if isinstance(want, tuple) and want and want[0] == "NUMVAL":
        n = numval(got)
        return n is not None and float(n[1]) == want[1]
    if isinstance(want, tuple) and want and want[0] == "TOKENS":
        if got[0] != "L":
            return False
        toks = Counter(got[1].split(want[1])) if got[1] != "" or sum(want[2].values()) else Counter()
        if sum(want[2].values()) == 0:
            return got[1] == ""
        return toks == want[2]
    return got == want or num_equal(want, got)


# ---- query families -----------------------------------------------------------------------

def rdflib_rows(res):
    vs = [str(v) for v in res.vars]
    rows = []
    for b in res.bindings:
        rows.append(tuple(None if b.get(v) is None else tkey(b.get(v)) for v in res.vars))
    return vs, rows


def run_query(g, q, horizon=20.0):
    with seams.watchdog(horizon), warnings.catch_warnings():
        warnings.simplefilter("ignore")
        if not _FRESH[0]:
            # each query text is parsed once per worker and evaluated on many graphs; every violation found this way is decided again
            # from a fresh parse on a fresh graph (see _batch)
            if q not in _QUERY_CACHE:
                _QUERY_CACHE[q] = prepareQuery(q)
            q = _QUERY_CACHE[q]
        res = g.query(q)
        return rdflib_rows(res)


def ref_rows(pname, gname):
    ev = S.Evaluator(S.Dataset(graph_triples(gname)))
    return ev.pattern(PATTERNS[pname])


def row_equal(a, b):
    return len(a) == len(b) and all(x == y or (x is not None and y is not None and num_equal(x, y)) for x, y in zip(a, b))


def multiset_equal(rows_a, rows_b):
    rb = list(rows_b)
    if len(rows_a) != len(rb):
        return False
    for r in rows_a:
        for i, s in enumerate(rb):
            if row_equal(r, s):
                del rb[i]
                break
        else:
            return False
    return True


def check_distinct_projection(pname, gname, vars_, distinct):
    where = S.inner(PATTERNS[pname])
    q = "SELECT %s%s WHERE { %s }" % ("DISTINCT " if distinct else "", " ".join("?" + v for v in vars_), where)
    want = [tuple(m.get(v) for v in vars_) for m in ref_rows(pname, gname)]
    if distinct:
        u = []
        for r in want:
            if r not in u:
                u.append(r)
        want = u
    try:
        vs, got = run_query(graph_for(gname), q)
    except Exception as e:  # noqa: BLE001
        return ("%s|raises|%s" % ("distinct" if distinct else "projection", type(e).__name__), {"query": q, "exc": repr(e)[:300]})
    if vs != list(vars_):
        return ("projection|vars-differ", {"query": q, "got": vs})
    if not multiset_equal(got, want):
        return ("%s|rows-differ" % ("distinct" if distinct else "projection"), {"query": q, "got": sorted(map(repr, got)), "expected": sorted(map(repr, want))})
    return None


ORDER_KEYS = [
    [("?v", False)], [("?v", True)], [("?s", False), ("?v", False)], [("?s", True), ("?v", True)], [("?v", False), ("?s", True)],
    [("?w", False)], [("?w", True), ("?s", False)], [("(?v + 1)", False)], [("(?v + 1)", True), ("?s", False)], [("?s", False)],
]


def key_value(term_text, m):
    if term_text.startswith("?"):
        return m.get(term_text[1:])
    # (?v + 1)
    v = m.get("v")
    n = numval(v) if v is not None else None
    if n is None:
        return None
    return mk_num(n[0], n[1] + 1)


def check_order(pname, gname, keys, limit, offset):
    where = S.inner(PATTERNS[pname])
    order = " ".join(("DESC(%s)" % k if desc else ("ASC(%s)" % k if k.startswith("(") else k)) for k, desc in keys)
    base = "SELECT * WHERE { %s } ORDER BY %s" % (where, order)
    q = base + ("" if limit is None else " LIMIT %d" % limit) + ("" if offset is None else " OFFSET %d" % offset)
    vars_ = sorted(S.scope(PATTERNS[pname]))
    want = [tuple(m.get(v) for v in vars_) for m in ref_rows(pname, gname)]
    g = graph_for(gname)
    try:
        vs, full = run_query(g, base)
        vs2, got = (vs, full) if (limit is None and offset is None) else run_query(g, q)
    except Exception as e:  # noqa: BLE001
        return ("order|raises|%s" % type(e).__name__, {"query": q, "exc": repr(e)[:300]})
    idx = {v: i for i, v in enumerate(vs)}
    full_p = [tuple(r[idx[v]] if v in idx else None for v in vars_) for r in full]
    if not multiset_equal(full_p, want):
        return ("order|not-a-permutation-of-the-solutions", {"query": base, "got": sorted(map(repr, full_p)), "expected": sorted(map(repr, want))})
    descs = [d for _, d in keys]
    kv = [[key_value(k, dict(zip(vars_, r))) for k, _ in keys] for r in full_p]
    for i in range(len(full_p)):
        for j in range(i + 1, len(full_p)):
            lt = key_less(kv[j], kv[i], descs)
            if lt:
                return ("order|later-row-precedes-earlier|%s" % ("desc" if any(descs) else "asc"),
                        {"query": base, "rows": list(map(repr, full_p)), "i": i, "j": j})
    if limit is None and offset is None:
        return None
    got_p = [tuple(r[idx[v]] if v in idx else None for v in vars_) for r in got]
    off = offset or 0
    exp_slice = full_p[off:(off + limit) if limit is not None else None]
    total = all(key_less(kv[i], kv[j], descs) is not None and (key_less(kv[i], kv[j], descs) or key_less(kv[j], kv[i], descs))
                for i in range(len(kv)) for j in range(i + 1, len(kv)))
    if total:
        if not (len(got_p) == len(exp_slice) and all(row_equal(a, b) for a, b in zip(got_p, exp_slice))):
            return ("slice|not-the-slice-of-the-ordered-sequence", {"query": q, "got": list(map(repr, got_p)), "expected": list(map(repr, exp_slice))})
    else:
        if len(got_p) != len(exp_slice):
            return ("slice|wrong-number-of-rows", {"query": q, "got": len(got_p), "expected": len(exp_slice)})
        rest = list(full_p)
        for r in got_p:
            for i, s in enumerate(rest):
                if row_equal(r, s):
                    del rest[i]
                    break
            else:
                return ("slice|row-not-in-result", {"query": q, "row": repr(r)})
    return None


def check_distinct_order(pname, gname, vars_, keys, limit):
    """SELECT DISTINCT <projection> ... ORDER BY <keys> [LIMIT n]: ordering happens before projection and DISTINCT (18.5), so the sort keys need not be
    projected; the result never repeats a row, is the set of distinct projected rows (a subset of the right size under LIMIT), and respects the order
    wherever the keys are projected."""
    where = S.inner(PATTERNS[pname])
    order = " ".join(("DESC(%s)" % k if desc else k) for k, desc in keys)
    q = "SELECT DISTINCT %s WHERE { %s } ORDER BY %s%s" % (" ".join("?" + v for v in vars_), where, order, "" if limit is None else " LIMIT %d" % limit)
    want = []
    for m in ref_rows(pname, gname):
        r = tuple(m.get(v) for v in vars_)
        if not any(row_equal(r, w) for w in want):
            want.append(r)
    try:
        vs, got = run_query(graph_for(gname), q)
    except Exception as e:  # noqa: BLE001
        return ("distinct+order|raises|%s" % type(e).__name__, {"query": q, "exc": repr(e)[:300]})
    if vs != list(vars_):
        return ("distinct+order|vars-differ", {"query": q, "got": vs})
    for i in range(len(got)):
        for j in range(i + 1, len(got)):
            if row_equal(got[i], got[j]):
                return ("distinct+order|row-repeated", {"query": q, "got": list(map(repr, got))})
    if limit is None:
        if not multiset_equal(got, want):
            return ("distinct+order|rows-differ", {"query": q, "got": sorted(map(repr, got)), "expected": sorted(map(repr, want))})
    else:
        if len(got) != min(limit, len(want)) or not all(any(row_equal(r, w) for w in want) for r in got):
            return ("distinct+order|slice-differs", {"query": q, "got": list(map(repr, got)), "expected_from": list(map(repr, want))})
    if all(k.startswith("?") and k[1:] in vars_ for k, _ in keys):
        descs = [d for _, d in keys]
        kv = [[dict(zip(vars_, r)).get(k[1:]) for k, _ in keys] for r in got]
        for i in range(len(got)):
            for j in range(i + 1, len(got)):
                if key_less(kv[j], kv[i], descs):
                    return ("distinct+order|later-row-precedes-earlier", {"query": q, "rows": list(map(repr, got))})
    return None


AGGS = [("COUNT*", False, None), ("COUNT*", True, None),  # COUNT(DISTINCT *): the number of different solutions of the group
         ("COUNT", False, "v"), ("COUNT", True, "v"), ("COUNT", False, "w"), ("SUM", False, "v"), ("SUM", True, "v"),
        ("AVG", False, "v"), ("AVG", True, "v"), ("MIN", False, "v"), ("MAX", False, "v"), ("SAMPLE", False, "v"), ("SAMPLE", False, "w"),
        ("SUM", False, "w"), ("AVG", False, "w"), ("AVG", True, "w"), ("MIN", False, "w"), ("MAX", False, "w"),  # ?w is unbound in some rows of a group (OPTIONAL)
        ("GROUP_CONCAT", False, "w"), ("GROUP_CONCAT", True, "w"), ("GROUP_CONCAT;", False, "w")]
GROUPINGS = ["implicit", "s", "s v", "STR(?v)", "s STR(?w)", "isIRI(?v)", "(STR(?v))", "s (isIRI(?w))"]  # the last three: grouping keys that are un-aliased function calls


def agg_text(name, distinct, var):
    if name == "COUNT*":
        return "COUNT(DISTINCT *)" if distinct else "COUNT(*)"
    if name == "GROUP_CONCAT;":
        return 'GROUP_CONCAT(?%s; separator="|")' % var
    return "%s(%s?%s)" % (name, "DISTINCT " if distinct else "", var)


def check_aggregate(pname, gname, grouping, agg, wrap, having):
    name, distinct, var = agg
    where = S.inner(PATTERNS[pname])
    sol = ref_rows(pname, gname)
    pvars = S.scope(PATTERNS[pname])
    if var is not None and var not in pvars:
        return "skip"
    gkeys = [] if grouping == "implicit" else grouping.split()          # each key: a variable name or FUNC(?var)
    gvars = [k for k in gkeys if "(" not in k]                          # only variable keys can be projected
    if any((k if "(" not in k else k[k.index("?") + 1:].rstrip(")")) not in pvars for k in gkeys):
        return "skip"

    def key_of(m, k):
        if "(" not in k:
            return m.get(k)
        k = k[1:-1] if k.startswith("(") else k                      # a bracketted, unnamed expression
        fn, v = k[:k.index("(")], m.get(k[k.index("?") + 1:-1])
        if v is None:
            return None                                                # error -> the key is unbound for this solution
        if fn == "STR":
            return ("L", v[1], None, None)
        if fn == "isIRI":
            return ("L", "true" if v[0] == "I" else "false", str(XSD.boolean), None)
        raise ValueError(fn)

    at = agg_text(name, distinct, var)
    sel = "(%s AS ?a)" % at if not wrap else "(%s + 1 AS ?a)" % at
    hv = "" if not having else " HAVING (%s > 1)" % at
    q = "SELECT %s %s WHERE { %s }%s%s" % (" ".join("?" + v for v in gvars), sel, where,
                                            (" GROUP BY " + " ".join(("?" + k if "(" not in k else k) for k in gkeys)) if gkeys else "", hv)
    # reference groups
    groups = {}
    order = []
    for m in sol:
        k = tuple(key_of(m, kk) for kk in gkeys)
        if k not in groups:
            groups[k] = []
            order.append(k)
        groups[k].append(m)
    if not gkeys and not groups:
        groups[()] = []
        order.append(())
    proj = [i for i, kk in enumerate(gkeys) if "(" not in kk]
    want = []
    base_name = "GROUP_CONCAT" if name.startswith("GROUP_CONCAT") else name
    sep = "|" if name == "GROUP_CONCAT;" else " "
    for k in order:
        ms = groups[k]
        vals = [m[var] for m in ms if var is not None and var in m]
        a = aggregate(base_name, distinct, vals, len({tuple(sorted(m.items())) for m in ms}) if (distinct and name == "COUNT*") else len(ms), sep)
        if having:
            if a == "ANY" or (isinstance(a, tuple) and a and a[0] in ("ONEOF", "TOKENS")):
                return "skip"
            if isinstance(a, tuple) and a and a[0] == "NUMVAL":
                keep = a[1] > 1
            else:
                n = numval(a) if a is not None else None
                keep = n is not None and float(n[1]) > 1
            if not keep:
                continue
        if wrap:
            if a is None:
                aw = None
            elif a == "ANY" or (isinstance(a, tuple) and a and a[0] in ("ONEOF", "TOKENS")):
                return "skip"
            elif isinstance(a, tuple) and a and a[0] == "NUMVAL":
                aw = ("NUMVAL", a[1] + 1)
            else:
                n = numval(a)
                aw = None if n is None else mk_num(n[0], n[1] + 1)
            a = aw
        want.append((tuple(k[i] for i in proj), a))
    try:
        vs, got = run_query(graph_for(gname), q)
    except Exception as e:  # noqa: BLE001
        return ("aggregate|%s|raises|%s" % (base_name, type(e).__name__), {"query": q, "exc": repr(e)[:300]})
    cls = "%s%s|%s|%s" % (base_name, "-distinct" if distinct else "", "implicit-group" if not gkeys else "group-by" if len(gvars) == len(gkeys) else "group-by-expression",
                          "empty-input" if not sol else "nonempty")
    if vs != gvars + ["a"]:
        return ("aggregate|%s|vars-differ" % cls, {"query": q, "got": vs})
    rest = list(got)
    if gkeys and not sol and len(got) == 1 and all(x is None for x in got[0]):
        # explicit GROUP BY over no solutions: the algebra yields no group, the W3C test agg-empty-group expects one
        # solution without bindings; both are accepted
        return None
    if len(rest) != len(want):
        return ("aggregate|%s|number-of-groups-differs" % cls, {"query": q, "got": list(map(repr, got)), "expected": list(map(repr, want))})
    # expectations that pin a value are matched before those that accept any value (the matching is greedy)
    want.sort(key=lambda ka: 2 if ka[1] == "ANY" else 1 if (isinstance(ka[1], tuple) and ka[1] and ka[1][0] in ("ONEOF", "TOKENS")) else 0)
    for k, a in want:
        for i, r in enumerate(rest):
            if row_equal(tuple(r[:len(gvars)]), k) and agg_matches(a, r[len(gvars)]):
                del rest[i]
                break
        else:
            return ("aggregate|%s|value-differs%s%s" % (cls, "|in-expression" if wrap else "", "|having" if having else ""),
                    {"query": q, "got": list(map(repr, got)), "expected": list(map(repr, want))})
    return None


def all_cases(thorough):
    cases = []
    gnames = list(GRAPHS) + universe_names(3 if thorough else 2)
    for pname in PATTERNS:
        pv = sorted(S.scope(PATTERNS[pname]))
        for gname in gnames:
            for r in range(1, len(pv) + 1):
                for vars_ in itertools.combinations(pv, r):
                    for distinct in (False, True):
                        cases.append(("dp", pname, gname, list(vars_), distinct))
            for keys in ORDER_KEYS:
                if any(k.strip("()?").split()[0].lstrip("?") not in pv for k, _ in keys):
                    continue
                cases.append(("order", pname, gname, keys, None, None))
                for limit, offset in [(0, None), (1, None), (2, None), (None, 0), (None, 1), (None, 5), (1, 1), (2, 1), (2, 5)]:
                    if thorough or (limit, offset) in [(1, None), (2, 1), (None, 1), (0, None), (None, 5)]:
                        cases.append(("order", pname, gname, keys, limit, offset))
            for r in range(1, len(pv) + 1):
                for vars_ in itertools.combinations(pv, r):
                    for keys in ORDER_KEYS:
                        if any(not k.startswith("?") or k[1:] not in pv for k, _ in keys):
                            continue
                        for limit in (None, 2):
                            cases.append(("dpo", pname, gname, list(vars_), keys, limit))
            for grouping in GROUPINGS:
                for agg in AGGS:
                    for wrap in (False, True):
                        for having in (False, True):
                            if wrap and having:
                                continue
                            cases.append(("agg", pname, gname, grouping, list(agg), wrap, having))
    return cases


def run_case(c):
    if c[0] == "dp":
        return check_distinct_projection(c[1], c[2], c[3], c[4])
    if c[0] == "dpo":
        return check_distinct_order(c[1], c[2], c[3], [tuple(k) for k in c[4]], c[5])
    if c[0] == "order":
        return check_order(c[1], c[2], [tuple(k) for k in c[3]], c[4], c[5])
    return check_aggregate(c[1], c[2], c[3], tuple(c[4]), c[5], c[6])


def _batch(cases):
    viols = []
    n = 0
    nontriv = 0
    for c in cases:
        v = run_case(c)
        if v and v != "skip":
            _FRESH[0] = True
            try:
                v = run_case(c)  # the verdict is the one from a fresh parse on a fresh graph
            finally:
                _FRESH[0] = False
        if v == "skip":
            continue
        n += 1
        if len(graph_triples(c[2])) > 1:
            nontriv += 1
        if v:
            viols.append({"sig": v[0], "detail": v[1], "case": {"c08": list(c)}})
    return viols, n, nontriv


def run(ctx):
    thorough = ctx.tier == "thorough"
    cases = all_cases(thorough)
    res = R.pmap(_batch, R.shards(cases, ctx.jobs * 8), ctx.jobs)
    for viols, n, nt in res:
        ctx.extend(viols)
        ctx.add("evaluations", n)
        ctx.add("distinct_nontrivial", nt)
    ctx.cov["patterns"] = len(PATTERNS)
    ctx.cov["graphs"] = len(GRAPHS) + len(universe_names(3 if thorough else 2))
    ctx.cov["exhaustive"] = True
    ctx.cov["rule"] = ("%d base patterns (BGP, OPTIONAL with unbound, UNION with duplicates) x (%d hand-picked graphs + every graph with <= k triples over a 28-triple universe with 0, \"\", decimals and an IRI object) (empty, integers, duplicates, integer/decimal/double promotion, "
                       "mixed term kinds with a blank node, non-numeric values, strings) x { every projection subset x DISTINCT; %d ORDER BY key lists x LIMIT/OFFSET menu; DISTINCT x every projection subset x every ORDER BY key list (projected or not) x {no LIMIT, LIMIT 2}; "
                       "GROUP BY in {implicit, ?s, ?s ?v} x %d aggregates (with DISTINCT, custom separator) x {bare, inside an expression, HAVING} }. Oracle: reference "
                       "pattern evaluator + SPARQL 18.5 modifiers; ORDER BY only constrained on pairs the Recommendation orders. Non-trivial: graph with > 1 triple." % (
                           len(PATTERNS), len(GRAPHS), len(ORDER_KEYS), len(AGGS)))
    ctx.sample({"c08": ["agg", "spv-opt-w", "promote", "s", ["AVG", False, "v"], False, False]})
    ctx.assumptions += ["MIN/MAX over non-numeric values, GROUP_CONCAT over non-strings and ordering of incomparable literals are not constrained",
                        "numeric results are compared by datatype and value (4.50 = 4.5); GROUP_CONCAT as a multiset of separator-split tokens; SAMPLE as any member"]


def replay(ctx, case):
    _FRESH[0] = True
    v = run_case(case["c08"])
    if v and v != "skip":
        return [{"sig": v[0], "case": case, "detail": v[1]}]
    return []


META = {
    "text": "Exhaustive product of a modifier/aggregate menu over base patterns and data graphs chosen to give duplicates, unbound variables, numeric type "
            "promotion, mixed term kinds and empty groups: DISTINCT and projection as multisets, ORDER BY as a permutation in which no later row precedes an "
            "earlier one under the pairs SPARQL orders, LIMIT/OFFSET as the slice of the ordered sequence, GROUP BY with COUNT/SUM/AVG/MIN/MAX/SAMPLE/"
            "GROUP_CONCAT (DISTINCT, separator, inside expressions, HAVING, implicit and empty groups) against the values section 18.5.1 defines.",
    "note": "Small scope: 4 patterns x (8 hand-picked graphs + all graphs of <= 2 (quick) / 3 (thorough) triples over a 28-triple universe); orderings the Recommendation leaves open are not constrained; numeric results compared by datatype and value. 22 aggregates incl. COUNT(DISTINCT *) and SUM/AVG/MIN/MAX over a partly unbound variable.",
    "technique": "exhaustive enumeration of modifier/aggregate combinations against a reference implementation of SPARQL 18.5",
}
