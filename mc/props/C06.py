"""C06 - quad syntaxes round-trip a Dataset; an RDF Patch of a difference applies.

Every function from a 4-triple universe (IRIs, a literal, blank nodes shared across graphs) to the
subsets of {default, IRI-named, blank-node-named}: 8^4 = 4096 datasets, through N-Quads, TriG, TriX,
JSON-LD, HexTuples and RDF Patch (add). RDF Patch diff: every ordered pair of datasets over a
sub-universe, applied to a copy of the first.
"""
from __future__ import annotations

import itertools

from rdflib import Dataset

from .. import run as R
from .. import seams
from ..canon import iso
from ..rt import B, I, L, dataset_from, dataset_rows, hext_norm, rows_of

ID = "C06"
LEVEL = "exploration"

FORMATS = ["nquads", "trig", "trix", "json-ld", "hext", "patch"]
GRAPHS = [None, I("g1"), B("gb")]
TRIPLES = [(I("a"), I("p"), I("b")), (I("a"), I("p"), L("x")), (B("b1"), I("p"), I("a")), (B("b1"), I("p"), B("b2")),
           (I("a"), I("q"), L("", lang="en"))]


def universe(ntriples, graphs=GRAPHS):
    """Every assignment triple -> subset of graph names."""
    subsets = []
    for r in range(len(graphs) + 1):
        subsets += list(itertools.combinations(range(len(graphs)), r))
    for assign in itertools.product(subsets, repeat=ntriples):
        quads = []
        for ti, gs in enumerate(assign):
            for gi in gs:
                quads.append(TRIPLES[ti] + (graphs[gi],))
        yield quads


def ds_class(quads):
    names = {None if q[3] is None else tuple(q[3]) for q in quads}
    by_t = {}
    for q in quads:
        by_t.setdefault(repr(q[:3]), set()).add(None if q[3] is None else q[3][0])
    parts = []
    if any(n is not None and n[0] == "B" for n in names):
        parts.append("bnode-named-graph")
    if any(len(v) > 1 for v in by_t.values()):
        parts.append("shared-triple")
    bn_graphs = {}
    for q in quads:
        for x in q[:3]:
            if x[0] == "B":
                bn_graphs.setdefault(x[1], set()).add(None if q[3] is None else q[3][1])
    if any(len(v) > 1 for v in bn_graphs.values()):
        parts.append("bnode-across-graphs")
    if None not in names and quads:
        parts.append("empty-default")
    return ",".join(parts) or "plain"


def roundtrip(quads, fmt, horizon=10.0):
    ds = dataset_from(quads)
    orig = dataset_rows(ds)
    try:
        with seams.watchdog(horizon):
            out = ds.serialize(format=fmt, **({"operation": "add"} if fmt == "patch" else {}))
    except Exception as e:  # noqa: BLE001
        return ("serialize-raises|" + type(e).__name__, {"exc": repr(e)[:300]})
    after = dataset_rows(ds)
    try:
        with seams.watchdog(horizon):
            back = Dataset()
            back.parse(data=out, format=fmt)
    except Exception as e:  # noqa: BLE001
        return ("parse-of-own-output-raises|" + type(e).__name__, {"exc": repr(e)[:300], "output": out[:600]})
    got = dataset_rows(back)
    a, b = (hext_norm(orig), hext_norm(got)) if fmt == "hext" else (orig, got)
    if not iso(a, b):
        ta, tb = {r[:3] for r in a}, {r[:3] for r in b}
        if len(b) < len(a):
            kind = "quads-lost"
        elif len(b) > len(a):
            kind = "quads-added"
        else:
            kind = "graph-name-changed" if iso(ta, tb) else "term-changed"
        return ("dataset-differs|" + kind, {"original": sorted(a, key=repr), "parsed": sorted(b, key=repr), "output": out[:800]})
    return None


PRE_KINDS = ["dataset", "view-of-g1", "graph-named-g1", "graph-named-gb"]


def roundtrip_after(pre_kind, pre_quads, quads, fmt):
    """One earlier write in the same process - another dataset, a named graph of it written on its own, or a separate plain Graph that carries the
    same name - and then the round trip of `quads`: what a serializer remembers from an earlier document must not reach a later one."""
    from rdflib import Graph
    from ..rt import mk
    pre = dataset_from(pre_quads)
    kw = {"operation": "add"} if fmt == "patch" else {}
    try:
        with seams.watchdog(10.0):
            if pre_kind == "dataset":
                pre.serialize(format=fmt, **kw)
            elif pre_kind == "view-of-g1":
                pre.graph(mk(I("g1"))).serialize(format=fmt, **kw)
            else:
                name = I("g1") if pre_kind == "graph-named-g1" else B("gb")
                g = Graph(identifier=mk(name))
                for q in pre_quads:
                    g.add(tuple(mk(x) for x in q[:3]))
                g.serialize(format=fmt, **kw)
    except Exception:  # noqa: BLE001
        pass  # (whether a plain Graph can be written in a quad format is not the point here)
    return roundtrip(quads, fmt)


def _hist_batch(arg):
    items, formats = arg
    viols = []
    n = 0
    for pre_kind, pre_quads, quads in items:
        for fmt in formats:
            n += 1
            v = roundtrip_after(pre_kind, pre_quads, quads, fmt)
            if v:
                viols.append({"sig": "%s|after-earlier-write:%s|%s" % (fmt, pre_kind, v[0]), "detail": v[1],
                              "case": {"earlier_write": [pre_kind, [[list(x) if x is not None else None for x in q] for q in pre_quads]],
                                       "quads": [[list(x) if x is not None else None for x in q] for q in quads], "format": fmt}})
    return viols, n


def fresh_process_histories(items, jobs):
    """The same histories, each in an interpreter of its own: what an earlier write leaves behind in the process (class attributes, module-level
    tables) depends on which write came FIRST, and a long-lived worker has long since made its first write of every kind."""
    import json
    import os
    import subprocess
    import sys
    from concurrent.futures import ThreadPoolExecutor
    import rdflib
    repo = os.path.dirname(os.path.dirname(os.path.abspath(rdflib.__file__)))
    verif = os.path.dirname(os.path.dirname(os.path.dirname(os.path.abspath(__file__))))
    code = ("import sys, json, warnings; warnings.simplefilter('ignore'); sys.path[:0] = [%r, %r]; from mc.props import C06; "
            "k, pre, quads, fmt = json.loads(sys.argv[1]); v = C06.roundtrip_after(k, C06._q(pre), C06._q(quads), fmt); print('RESULT ' + json.dumps(v, default=str))" % (verif, repo))

    def one(item):
        k, pre, quads, fmt = item
        arg = json.dumps([k, [[list(x) if x is not None else None for x in q] for q in pre], [[list(x) if x is not None else None for x in q] for q in quads], fmt])
        r = subprocess.run([sys.executable, "-c", code, arg], capture_output=True, text=True, timeout=120, env=dict(os.environ))
        for line in r.stdout.splitlines():
            if line.startswith("RESULT "):
                return item, json.loads(line[7:]), None
        return item, None, (r.stderr or r.stdout)[-400:]

    with ThreadPoolExecutor(max_workers=jobs) as ex:
        return list(ex.map(one, items))


def _rt_batch(arg):
    datasets, formats = arg
    viols = []
    n = 0
    nontriv = 0
    for quads in datasets:
        dc = ds_class(quads)
        for fmt in formats:
            n += 1
            if dc != "plain":
                nontriv += 1
            v = roundtrip(quads, fmt)
            if v:
                viols.append({"sig": "%s|%s|%s" % (fmt, v[0], dc), "detail": v[1],
                              "case": {"quads": [[list(x) if x is not None else None for x in q] for q in quads], "format": fmt}})
    return viols, n, nontriv


def term_datasets(t):
    """Datasets that carry one varied term: as object in the default graph and in a named graph, as a list member in a named graph; IRIs also as
    subject, predicate and graph name."""
    A, P, G = I("a"), I("p"), I("g1")
    FIRST = ["I", "http://www.w3.org/1999/02/22-rdf-syntax-ns#first", None, None]
    REST = ["I", "http://www.w3.org/1999/02/22-rdf-syntax-ns#rest", None, None]
    NIL = ["I", "http://www.w3.org/1999/02/22-rdf-syntax-ns#nil", None, None]
    out = [("object", [(A, P, t, None), (A, P, t, G)]),
           ("list-member-in-named-graph", [(A, P, B("c1"), G), (B("c1"), FIRST, A, G), (B("c1"), REST, B("c2"), G), (B("c2"), FIRST, t, G), (B("c2"), REST, NIL, G)])]
    out.append(("list-cell-shared-across-graphs", [(A, P, B("c1"), G), (B("c1"), FIRST, A, G), (B("c1"), REST, B("c2"), G), (B("c2"), FIRST, t, G), (B("c2"), REST, NIL, G),
                                                   (A, I("q"), B("c2"), None)]))
    if t[0] == "I":
        out.append(("subject+predicate", [(t, P, A, G), (A, t, A, None)]))
        out.append(("graph-name", [(A, P, A, t), (A, P, I("b"), None)]))
    return out


def _term_batch(arg):
    from . import C03
    terms, formats = arg
    viols = []
    n = 0
    for t in terms:
        tc = C03.term_class(t)
        for emb, quads in term_datasets(t):
            for fmt in formats:
                if fmt == "trix" and t[0] == "L" and any(ord(c) < 0x20 and c not in "\t\n\r" for c in t[1]):
                    continue  # XML 1.0 cannot carry the character
                n += 1
                v = roundtrip(quads, fmt)
                if v:
                    viols.append({"sig": "%s|%s|term:%s" % (fmt, v[0], tc), "detail": v[1],
                                  "case": {"quads": [[list(x) if x is not None else None for x in q] for q in quads], "format": fmt, "term_class": tc}})
    return viols, n


def name_as_term_universe():
    """Every assignment of three triples that mention the blank node _:gb to subsets of {default, <g1>, _:gb}: the node that names a graph is also a term."""
    gb = B("gb")
    ts = [(I("a"), I("p"), gb), (gb, I("q"), L("x")), (I("a"), I("p"), I("a"))]
    subsets = []
    for r in range(len(GRAPHS) + 1):
        subsets += list(itertools.combinations(range(len(GRAPHS)), r))
    for assign in itertools.product(subsets, repeat=len(ts)):
        quads = []
        for ti, gs in enumerate(assign):
            for gi in gs:
                quads.append(ts[ti] + (GRAPHS[gi],))
        if quads:
            yield quads


def patch_diff(q1, q2, horizon=10.0):
    d1 = dataset_from(q1)
    d2 = dataset_from(q2)
    want = dataset_rows(d2)
    try:
        with seams.watchdog(horizon):
            patch = d1.serialize(format="patch", target=d2)
            d1copy = dataset_from(q1)
            d1copy.parse(data=patch, format="patch")
    except Exception as e:  # noqa: BLE001
        return ("patch-diff|raises|" + type(e).__name__, {"exc": repr(e)[:300]})
    got = dataset_rows(d1copy)
    if not iso(got, want):
        cls = "target-empty" if not q2 else "source-empty" if not q1 else "general"
        return ("patch-diff|result-differs-from-target|" + cls, {"got": sorted(got, key=repr), "expected": sorted(want, key=repr), "patch": patch[:600]})
    return None


def _diff_batch(pairs):
    viols = []
    for q1, q2 in pairs:
        v = patch_diff(q1, q2)
        if v:
            viols.append({"sig": v[0], "detail": v[1], "case": {"diff": [[[list(x) if x is not None else None for x in q] for q in qq] for qq in (q1, q2)]}})
    return viols, len(pairs)


def run(ctx):
    thorough = ctx.tier == "thorough"
    dss = list(universe(5 if thorough else 4))
    res = R.pmap(_rt_batch, [(sh, FORMATS) for sh in R.shards(dss, ctx.jobs * 8)], ctx.jobs)
    for viols, n, nt in res:
        ctx.extend(viols)
        ctx.add("evaluations", n)
        ctx.add("distinct_nontrivial", nt)
    ctx.cov["datasets"] = len(dss)
    nat = list(name_as_term_universe())
    # (TriX has no syntax for a blank-node graph name: a dataset in which such a name is also a term cannot be written in it)
    fm = [f for f in FORMATS if f != "trix"]
    res = R.pmap(_rt_batch, [(sh, fm) for sh in R.shards(nat, ctx.jobs * 4)], ctx.jobs)
    for viols, n, nt in res:
        ctx.extend(viols)
        ctx.add("evaluations", n)
        ctx.add("distinct_nontrivial", nt)
    ctx.cov["datasets_with_graph_name_as_term"] = len(nat)
    # one earlier write (of a dataset of the 2-triple sub-universe) before the round trip of every dataset of the 2-triple (thorough: 3-triple) sub-universe
    small = list(universe(3 if thorough else 2))
    pre_u = list(universe(2))
    items = [(k, a, b) for k in PRE_KINDS for a in pre_u for b in small if b and (a or k == "dataset")]
    res = R.pmap(_hist_batch, [(sh, FORMATS) for sh in R.shards(items, ctx.jobs * 8)], ctx.jobs)
    for viols, n in res:
        ctx.extend(viols)
        ctx.add("evaluations", n)
        ctx.add("distinct_nontrivial", n)
    ctx.cov["write_histories"] = len(items) * len(FORMATS)
    t0, t1 = TRIPLES[0], TRIPLES[1]
    pres = [[t0 + (I("g1"),)], [t0 + (I("g1"),), t1 + (B("gb"),)], [t0 + (None,), t1 + (I("g1"),)]]
    mains = [[t0 + (I("g1"),), t1 + (None,)], [t0 + (I("g1"),), t0 + (B("gb"),)], [t1 + (B("gb"),), t0 + (None,)]]
    fresh = [(k, a, b, fmt) for fmt in FORMATS for k in PRE_KINDS for a in pres for b in mains]
    for item, v, err in fresh_process_histories(fresh, ctx.jobs):
        ctx.add("evaluations", 1)
        ctx.add("distinct_nontrivial", 1)
        k, a, b, fmt = item
        case = {"earlier_write": [k, [[list(x) if x is not None else None for x in q] for q in a]], "quads": [[list(x) if x is not None else None for x in q] for q in b], "format": fmt}
        if err is not None:
            ctx.violation("%s|after-earlier-write:%s|fresh-process-run-failed" % (fmt, k), case, {"stderr": err})
        elif v:
            ctx.violation("%s|after-earlier-write:%s|%s" % (fmt, k, v[0]), case, v[1])
    ctx.cov["write_histories_in_fresh_processes"] = len(fresh)
    # the term table of C03 through the quad syntaxes (TriG / TriX / N-Quads / RDF Patch / HexTuples are reachable only with datasets)
    from . import C03
    terms = C03.term_table(3 if thorough else 2, thorough)
    res = R.pmap(_term_batch, [(sh, FORMATS) for sh in R.shards(terms, ctx.jobs * 8)], ctx.jobs)
    for viols, n in res:
        ctx.extend(viols)
        ctx.add("evaluations", n)
        ctx.add("distinct_nontrivial", n)
    ctx.cov["terms"] = len(terms)
    # patch diffs over the sub-universe of the first two triples (no blank nodes: exact) / first three (thorough: up to iso)
    sub = list(universe(3 if thorough else 2))
    pairs = [(a, b) for a in sub for b in sub]
    res = R.pmap(_diff_batch, R.shards(pairs, ctx.jobs * 8), ctx.jobs)
    for viols, n in res:
        ctx.extend(viols)
        ctx.add("evaluations", n)
        ctx.add("patch_diff_pairs", n)
    ctx.cov["exhaustive"] = True
    ctx.cov["rule"] = ("every assignment of %d universe triples (IRI/literal/blank nodes b1,b2) to subsets of {default, <g1>, _:gb} (%d datasets) x "
                       "{nquads, trig, trix, json-ld, hext, patch}; every term of the C03 table (strings over two alphabets in every literal kind, lexical tables, IRI and datatype tables) as object in the default and a named graph, as a list member in a named graph, IRIs also as subject / predicate / graph name, through the same formats; RDF Patch diff for every ordered pair of the %d-dataset sub-universe. Non-trivial: shared "
                       "triple, blank node across graphs, blank-node-named graph or empty default graph." % (5 if thorough else 4, len(dss), len(sub)))
    ctx.sample({"quads": [[list(x) if x is not None else None for x in q] for q in dss[len(dss) // 2]], "format": "trig"})
    ctx.assumptions += ["quads compared up to ONE blank-node bijection that also maps graph names; HexTuples modulo simple literal = xsd:string",
                        "empty named graphs are not part of the quad set and are not compared"]


def _q(q):
    return [tuple(None if x is None else list(x) for x in quad) for quad in q]


def replay(ctx, case):
    if "earlier_write" in case:
        kind, pre = case["earlier_write"]
        v = roundtrip_after(kind, _q(pre), _q(case["quads"]), case["format"])
        return [{"sig": "%s|after-earlier-write:%s|%s" % (case["format"], kind, v[0]), "case": case, "detail": v[1]}] if v else []
    if "quads" in case and case.get("term_class"):
        quads = _q(case["quads"])
        v = roundtrip(quads, case["format"], horizon=60.0)
        return [{"sig": "%s|%s|term:%s" % (case["format"], v[0], case["term_class"]), "case": case, "detail": v[1]}] if v else []
    if "quads" in case:
        quads = _q(case["quads"])
        v = roundtrip(quads, case["format"], horizon=60.0)
        return [{"sig": "%s|%s|%s" % (case["format"], v[0], ds_class(quads)), "case": case, "detail": v[1]}] if v else []
    q1, q2 = [_q(x) for x in case["diff"]]
    v = patch_diff(q1, q2, horizon=60.0)
    return [{"sig": v[0], "case": case, "detail": v[1]}] if v else []


META = {
    "text": "Exhaustive enumeration of all 4096 (thorough 32768) datasets obtained by assigning each triple of a small universe to any subset of "
            "{default graph, IRI-named graph, blank-node-named graph} - which contains triples shared by several graphs, blank nodes shared "
            "across graphs and empty default graphs - through every quad-capable format; the parsed quads must equal the original up to one "
            "blank-node bijection that also maps graph names. RDF Patch diffs are produced for every ordered pair of a sub-universe and applied.",
    "note": "Small scope: 4-5 triples, 3 graph names; HexTuples modulo simple literal = xsd:string; empty named graphs not compared. One earlier write (another dataset, a named graph on its own, a plain Graph "
            "with the same name) before the round trip: every (2-triple dataset written earlier, 2/3-triple dataset round-tripped) pair in the worker, 216 histories each in an interpreter of its own.",
    "technique": "exhaustive enumeration of dataset assignments through serialize+parse with a quad isomorphism oracle",
}
