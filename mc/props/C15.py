"""C15 - query answers do not depend on how the query is written, prepared or stored.

Differential check, no reference evaluator: for every query of a bounded family and every semantics-
preserving rewriting (all permutations of each BGP's triple patterns, operand swap of every join / union
node, every permutation of the variable names, full IRIs vs three prefix tables, initBindings vs an added
VALUES row), every sequence of <= 3 evaluations of one prepared query object over 3 graphs, and every
store configuration (Memory, SimpleMemory, AuditableStore, ReadOnlyGraphAggregate over every 2-partition
of the data into disjoint graphs), the multiset of solutions must equal that of the base query.
"""
from __future__ import annotations

import itertools
import warnings
from collections import Counter

from rdflib import Graph, URIRef
from rdflib.graph import ReadOnlyGraphAggregate
from rdflib.plugins.sparql import prepareQuery
from rdflib.plugins.stores.auditable import AuditableStore
from rdflib.plugins.stores.memory import Memory, SimpleMemory

from .. import run as R
from .. import seams
from ..canon import tkey
from ..ref import sparql_ref as S
from . import C04, C08, C11

ID = "C15"
LEVEL = "exploration"

EX = "http://ex.org/"
EMPTY, FALSE = ("L", "", None, None), ("L", "false", "http://www.w3.org/2001/XMLSchema#boolean", None)
GRAPHS = [C04.BIG[0], C04.BIG[1], C04.BIG[2], C04.BIG[4], C04.BIG[5],
          [(C04.A, C04.P, C04.B)],
          # falsy terms as join keys (this check is differential, so "" and false can be used freely)
          [(C04.A, C04.Q, C04.ZERO), (C04.B, C04.Q, C04.ONE), (C04.A, C04.P, C04.B), (C04.B, C04.P, EMPTY)],
          [(C04.A, C04.Q, EMPTY), (C04.A, C04.Q, FALSE), (C04.B, C04.Q, C04.ZERO), (C04.A, C04.P, C04.A)],
          [(C04.A, C04.P, C04.A), (C04.A, C04.Q, C04.ONE)], [(C04.A, C04.P, C04.B), (C04.B, C04.P, C04.A)],
          [(C04.A, C04.P, C04.B), (C04.B, C04.Q, C04.ONE)], [(C04.B, C04.P, C04.B), (C04.B, C04.Q, C04.B)], [], [(C04.A, C04.Q, C04.ONE), (C04.B, C04.Q, C04.TWO)]]


def rows(res):
    return Counter(frozenset((str(v), tkey(t)) for v, t in b.items() if t is not None) for b in res.bindings)


def build(triples, config="Memory", partition=None):
    if config == "aggregate":
        g1, g2 = Graph(bind_namespaces="none"), Graph(bind_namespaces="none")
        for i, t in enumerate(triples):
            (g2 if partition >> i & 1 else g1).add(tuple(C04.mkterm(x) for x in t))
        return ReadOnlyGraphAggregate([g1, g2])
    store = {"Memory": Memory, "SimpleMemory": SimpleMemory}.get(config, Memory)()
    if config == "Auditable":
        base = Graph(store, bind_namespaces="none")
        for t in triples:
            base.add(tuple(C04.mkterm(x) for x in t))
        return Graph(AuditableStore(store), identifier=base.identifier, bind_namespaces="none")
    g = Graph(store, bind_namespaces="none")
    for t in triples:
        g.add(tuple(C04.mkterm(x) for x in t))
    return g


def evaluate(g, q, **kw):
    with seams.watchdog(30.0), warnings.catch_warnings():
        warnings.simplefilter("ignore")
        return rows(g.query(q, **kw))


# ---- rewritings on the AST -----------------------------------------------------------

def bgp_permutations(p):
    """All patterns obtained by permuting the triple patterns of ONE bgp node (others unchanged)."""
    out = []

    def rec(node, rebuild):
        if node[0] == "bgp":
            if len(node[1]) > 1:
                for perm in itertools.permutations(node[1]):
                    if list(perm) != list(node[1]):
                        out.append(rebuild(("bgp", list(perm))))
            return
        for i, child in enumerate(node):
            if isinstance(child, tuple) and child and isinstance(child[0], str) and child[0] in ("bgp", "join", "opt", "optf", "union", "minus", "filter", "bind", "values", "valuesfirst", "subsel", "graph"):
                rec(child, lambda new, i=i, node=node, rebuild=rebuild: rebuild(node[:i] + (new,) + node[i + 1:]))

    rec(p, lambda x: x)
    return out


def operand_swaps(p):
    out = []

    def rec(node, rebuild):
        if node[0] in ("join", "union"):
            out.append(rebuild((node[0], node[2], node[1])))
        for i, child in enumerate(node):
            if isinstance(child, tuple) and child and isinstance(child[0], str) and child[0] in ("bgp", "join", "opt", "optf", "union", "minus", "filter", "bind", "values", "valuesfirst", "subsel", "graph"):
                rec(child, lambda new, i=i, node=node, rebuild=rebuild: rebuild(node[:i] + (new,) + node[i + 1:]))

    rec(p, lambda x: x)
    return out


def rename(x, m):
    """Consistently rename variables in a pattern / expression AST."""
    if isinstance(x, tuple):
        if len(x) == 2 and x[0] == "var":
            return ("var", m.get(x[1], x[1]))
        if x and x[0] == "bgp":
            return ("bgp", [tuple(rename(t, m) for t in tr) for tr in x[1]])
        if x and x[0] == "bound":
            return ("bound", m.get(x[1], x[1]))
        if x and x[0] == "bind":
            return ("bind", rename(x[1], m), rename(x[2], m), m.get(x[3], x[3]))
        if x and x[0] in ("values", "valuesfirst"):
            return (x[0], rename(x[1], m), [m.get(v, v) for v in x[2]], x[3])
        if x and x[0] == "subsel":
            return ("subsel", rename(x[1], m), [m.get(v, v) for v in x[2]], x[3] if len(x) > 3 else False)
        if x and x[0] == "coalesce":
            return ("coalesce", [rename(e, m) for e in x[1]])
        if x and x[0] == "const":
            return x
        if x and x[0] in ("I", "L", "B"):
            return x
        return tuple(rename(y, m) for y in x)
    return x


def all_vars(p):
    out = set()

    def rec(x):
        if isinstance(x, tuple):
            if len(x) == 2 and x[0] == "var":
                out.add(x[1])
                return
            if x and x[0] == "bound":
                out.add(x[1])
                return
            if x and x[0] == "bind":
                out.add(x[3])
            if x and x[0] in ("values", "valuesfirst", "subsel"):
                out.update(x[2])
            for y in x:
                rec(y)
        elif isinstance(x, list):
            for y in x:
                rec(y)

    rec(p)
    return out


def prefixed(text, table):
    if table == "e":
        return "PREFIX e: <%s>\n" % EX + text.replace("<%s" % EX, "e:").replace(">", "", 0) if False else _prefix(text, "e")
    return _prefix(text, "")


def _prefix(text, pfx):
    import re
    if pfx == "two":
        # two prefixes declared for the one namespace, used alternately
        n = [0]

        def alt(m):
            n[0] += 1
            return "%s:%s" % ("e" if n[0] % 2 else "f", m.group(1))
        body = re.sub(r"<%s([A-Za-z0-9]+)>" % re.escape(EX), alt, text)
        return "PREFIX e: <%s>\nPREFIX f: <%s>\n%s" % (EX, EX, body)
    body = re.sub(r"<%s([A-Za-z0-9]+)>" % re.escape(EX), lambda m: "%s:%s" % (pfx, m.group(1)), text)
    return "PREFIX %s: <%s>\n%s" % (pfx, EX, body)


def outer_bgp_var(p):
    """'x' if the left-most operand chain of p is a BGP binding ?x and p has no sub-select (initBindings clause)."""
    if "subsel" in repr(p):
        return None
    node = p
    while node[0] != "bgp":
        if node[0] in ("opt", "optf", "bind", "join", "minus"):
            node = node[1]
        elif node[0] == "filter":
            node = node[2]
        else:
            return None
    vs = {x[1] for tr in node[1] for x in tr if S.is_var(x)}
    if "x" not in vs or not _x_only_used_in_scope(p):
        return None
    return "x"


def _minus_without_x(p):
    if not isinstance(p, tuple) or not p or p[0] == "bgp":
        return False
    if p[0] == "minus" and "x" not in all_vars(p[2]):
        return True
    return any(_minus_without_x(c) for c in p[1:] if isinstance(c, tuple) and c and isinstance(c[0], str))


def _x_only_used_in_scope(p):
    """initBindings substitutes ?x everywhere, a VALUES row joins at the top: the two agree only if no expression uses ?x at a place
    where the pattern itself does not have it in scope (the property excludes such reuse for sub-queries; nested groups are the same case)."""
    t = p[0]
    if t == "bgp":
        return True
    if t == "filter":
        return ("x" not in S.expr_vars(p[1]) or "x" in S.scope(p[2])) and _x_only_used_in_scope(p[2])
    if t in ("opt", "optf", "minus") and "x" in all_vars(p[2]) and "x" not in S.scope(p[1]):
        return False  # not well-designed in ?x: binding ?x beforehand changes what the right operand matches, joining a VALUES row afterwards does not
    if t == "optf":
        return ("x" not in S.expr_vars(p[3]) or "x" in (S.scope(p[1]) | S.scope(p[2]))) and _x_only_used_in_scope(p[1]) and _x_only_used_in_scope(p[2])
    if t == "bind":
        return ("x" not in S.expr_vars(p[2]) or "x" in S.scope(p[1])) and _x_only_used_in_scope(p[1])
    if t in ("values", "valuesfirst", "subsel"):
        return _x_only_used_in_scope(p[1])
    if t == "graph":
        return _x_only_used_in_scope(p[2])
    if t == "minus":
        # the right side of MINUS is evaluated on its own: ?x there must be bound there
        return _x_only_used_in_scope(p[1]) and _x_only_used_in_scope(p[2])
    return _x_only_used_in_scope(p[1]) and _x_only_used_in_scope(p[2])


def skeleton(p):
    return C04.skeleton(p)


def join_family():
    """join / union / optional of a leaf BGP with every one-operator pattern on a leaf (both orientations arise through the swap):
    these are the joins rdflib cannot evaluate by pushing bindings into the right operand, i.e. the ones that merge solution sets."""
    leaves = [C04.bgp(t) for t in C04.LEAVES_SMALL]
    out = []
    for a in leaves:
        for b in leaves:
            for u in C04.unary(b, True):
                for op in ("join", "union"):
                    p = (op, a, u)
                    if S.legal(p):
                        out.append(p)
    return out


def check_program(pat, graphs, only=None):
    """All rewritings of one pattern over the graph family. Returns (viols, evaluations, nontrivial)."""
    viols = []
    evals = 0
    base_q = "SELECT * WHERE { %s }" % S.inner(pat)
    gs = [build(t) for t in graphs]
    # each query text is parsed once and the parsed query evaluated on every graph (parsing dominates the cost); a difference found this
    # way is re-evaluated from a fresh parse before it is classified (a leak between evaluations belongs to the prepared-query clause)
    try:
        base_p = prepareQuery(base_q)
        base = [evaluate(g, base_p) for g in gs]
    except Exception as e:  # noqa: BLE001
        return ([{"sig": "base-query-raises|%s" % type(e).__name__, "detail": {"query": base_q, "exc": repr(e)[:200]}, "case": {"pattern": pat, "variant": "base"}}], 0, False)
    evals += len(gs)
    nontriv = any(base)
    variants = []
    for v in bgp_permutations(pat):
        variants.append(("bgp-permutation", "SELECT * WHERE { %s }" % S.inner(v), None, {}))
    for v in operand_swaps(pat):
        variants.append(("operand-swap", "SELECT * WHERE { %s }" % S.inner(v), None, {}))
    vs = sorted(all_vars(pat))
    perms = list(itertools.permutations(vs))
    if not _THOROUGH[0] and len(vs) > 3:
        # quick: the transpositions and the rotation (they generate every permutation); thorough: every permutation
        perms = [tuple(vs[j] if k == i else vs[i] if k == j else vs[k] for k in range(len(vs))) for i in range(len(vs)) for j in range(i + 1, len(vs))] + [tuple(vs[1:] + vs[:1])]
    for perm in perms:
        m = dict(zip(vs, perm))
        if all(a == b for a, b in m.items()):
            continue
        rp = rename(pat, m)
        if not S.legal(rp):
            continue
        variants.append(("variable-renaming", "SELECT * WHERE { %s }" % S.inner(rp), {b: a for a, b in m.items()}, {}))
    for table in ("e", "", "two"):
        variants.append(("prefixed-names", _prefix(base_q, table), None, {}))
    x = outer_bgp_var(pat)
    if x:
        for term in (C04.A, C04.B):
            vq = "SELECT * WHERE { %s VALUES (?x) { (%s) } }" % (S.wrapped(pat), S.term_text(term))
            variants.append(("initBindings-vs-VALUES", base_q, None, {"initBindings": {"x": C04.mkterm(term)}, "values_query": vq}))
    if only:
        variants = [v for v in variants if v[0] in only]
    for kind, q, back, kw in variants:
        try:
            qp = prepareQuery(q)
            vqp = prepareQuery(kw["values_query"]) if kind == "initBindings-vs-VALUES" else None
        except Exception as e:  # noqa: BLE001
            viols.append({"sig": "%s|raises|%s|%s" % (kind, type(e).__name__, skeleton(pat)), "detail": {"query": q, "exc": repr(e)[:200]},
                          "case": {"pattern": pat, "variant": kind, "query": q, "graph": graphs[0]}})
            continue
        for gi, g in enumerate(gs):
            evals += 1
            try:
                if kind == "initBindings-vs-VALUES":
                    got = evaluate(g, qp, initBindings=kw["initBindings"])
                    want = evaluate(g, vqp)
                    if got != want:
                        got, want = evaluate(g, q, initBindings=kw["initBindings"]), evaluate(g, kw["values_query"])
                else:
                    got = evaluate(g, qp)
                    want = base[gi]
                    if back:
                        got = Counter({frozenset((back.get(a, a), b) for a, b in k): n for k, n in got.items()})
                    if got != want:
                        got, want = evaluate(g, q), evaluate(g, base_q)
                        if back:
                            got = Counter({frozenset((back.get(a, a), b) for a, b in k): n for k, n in got.items()})
                        if got == want:
                            viols.append({"sig": "prepared-query|reused-parse-differs-from-fresh-parse|%s" % skeleton(pat), "detail": {"query": q, "graph_index": gi},
                                          "case": {"pattern": pat, "variant": kind, "query": q, "graph": graphs[gi]}})
                            break
            except Exception as e:  # noqa: BLE001
                viols.append({"sig": "%s|raises|%s|%s" % (kind, type(e).__name__, skeleton(pat)), "detail": {"query": q, "exc": repr(e)[:200]},
                              "case": {"pattern": pat, "variant": kind, "query": q, "graph": graphs[gi]}})
                break
            if got != want:
                cls = skeleton(pat)
                if kind == "initBindings-vs-VALUES" and _minus_without_x(pat):
                    cls = "minus-whose-right-side-does-not-mention-the-variable"
                viols.append({"sig": "%s|answers-differ|%s" % (kind, cls),
                              "detail": {"base_query": base_q if kind != "initBindings-vs-VALUES" else kw["values_query"], "variant_query": q,
                                         "base": sorted(map(repr, want.elements())), "variant": sorted(map(repr, got.elements()))},
                              "case": {"pattern": pat, "variant": kind, "query": q, "graph": graphs[gi]}})
                break
    return viols, evals, nontriv


def check_prepared(pat, graphs3):
    """Every sequence of <= 3 evaluations of one prepared query over 3 graphs equals fresh parses."""
    viols = []
    q = "SELECT * WHERE { %s }" % S.inner(pat)
    gs = [build(t) for t in graphs3]
    fresh = [evaluate(g, q) for g in gs]
    x = outer_bgp_var(pat)
    fresh_ib = [evaluate(g, q, initBindings={"x": C04.mkterm(C04.A)}) for g in gs] if x else None
    n = 0
    for L in (1, 2, 3):
        for seq in itertools.product(range(3), repeat=L):
            for ib_pos in ([None] + (list(range(L)) if x else [])):
                pq = prepareQuery(q)
                for pos, gi in enumerate(seq):
                    n += 1
                    use_ib = (ib_pos == pos)
                    try:
                        got = evaluate(gs[gi], pq, **({"initBindings": {"x": C04.mkterm(C04.A)}} if use_ib else {}))
                    except Exception as e:  # noqa: BLE001
                        viols.append({"sig": "prepared-query|raises|%s|%s" % (type(e).__name__, skeleton(pat)), "detail": {"query": q, "exc": repr(e)[:200]},
                                      "case": {"pattern": pat, "variant": "prepared", "sequence": list(seq), "initBindings_at": ib_pos}})
                        return viols, n
                    want = fresh_ib[gi] if use_ib else fresh[gi]
                    if got != want:
                        viols.append({"sig": "prepared-query|evaluation-%d-differs-from-fresh-parse|%s" % (pos + 1, skeleton(pat)),
                                      "detail": {"query": q, "sequence": list(seq), "got": sorted(map(repr, got.elements())), "fresh": sorted(map(repr, want.elements()))},
                                      "case": {"pattern": pat, "variant": "prepared", "sequence": list(seq), "initBindings_at": ib_pos}})
                        return viols, n
    return viols, n


MODIFIER_QUERIES = [
    "SELECT ?s ?o WHERE { ?s ?p ?o } ORDER BY ?s DESC(?o) LIMIT 2",
    "SELECT ?s ?p ?o WHERE { ?s ?p ?o } ORDER BY DESC(?p) ?o ?s LIMIT 2 OFFSET 1",
    "SELECT ?x (COUNT(?y) AS ?n) WHERE { ?x ?p ?y } GROUP BY ?x ORDER BY DESC(?n) ?x LIMIT 1",
    "SELECT DISTINCT ?p ?o WHERE { ?s ?p ?o } ORDER BY ?o ?p LIMIT 3",
    "SELECT ?x ?y WHERE { ?x <%sp> ?y } ORDER BY ?y" % EX,
    "SELECT (SUM(?y) AS ?t) (MIN(?y) AS ?m) WHERE { ?x <%sq> ?y } HAVING (COUNT(?y) > 0)" % EX,
    "SELECT ?x WHERE { ?x ?p ?y FILTER EXISTS { SELECT ?x WHERE { ?x ?p2 ?z } ORDER BY ?x DESC(?z) LIMIT 1 } }",
]


def check_prepared_text(q, graphs):
    """The same for queries with solution modifiers (C08): ORDER BY with several keys, LIMIT/OFFSET, grouping. Answers are compared as sequences."""
    viols = []
    gs = [build(t) for t in graphs]

    def seq_of(g, query):
        with seams.watchdog(30.0), warnings.catch_warnings():
            warnings.simplefilter("ignore")
            return [tuple(sorted((str(v), tkey(t)) for v, t in b.items() if t is not None)) for b in g.query(query).bindings]

    fresh = [seq_of(g, q) for g in gs]
    n = 0
    for L in (1, 2, 3, 4):
        for seq in itertools.product(range(len(gs)), repeat=L):
            pq = prepareQuery(q)
            for pos, gi in enumerate(seq):
                n += 1
                try:
                    got = seq_of(gs[gi], pq)
                except Exception as e:  # noqa: BLE001
                    viols.append({"sig": "prepared-query|raises|%s|modifiers" % type(e).__name__, "detail": {"query": q, "exc": repr(e)[:200]},
                                  "case": {"prepared_text": q, "graphs": graphs, "sequence": list(seq)}})
                    return viols, n
                if got != fresh[gi]:
                    viols.append({"sig": "prepared-query|evaluation-%d-differs-from-fresh-parse|modifiers" % (pos + 1),
                                  "detail": {"query": q, "sequence": list(seq), "got": list(map(repr, got)), "fresh": list(map(repr, fresh[gi]))},
                                  "case": {"prepared_text": q, "graphs": graphs, "sequence": list(seq)}})
                    return viols, n
    return viols, n


def check_stores(q, graphs, label):
    viols = []
    n = 0
    qtext, q = q, prepareQuery(q)  # parsed once for all configurations; a difference is re-evaluated from the text
    for triples in graphs:
        base = evaluate(build(triples), q)
        configs = [("SimpleMemory", None), ("Auditable", None)] + [("aggregate", part) for part in range(0, 2 ** len(triples)) if len(triples) <= 5]
        for cfg, part in configs:
            n += 1
            try:
                got = evaluate(build(triples, cfg, part), q)
            except Exception as e:  # noqa: BLE001
                viols.append({"sig": "store|%s|raises|%s|%s" % (cfg, type(e).__name__, label), "detail": {"query": qtext, "exc": repr(e)[:200]},
                              "case": {"store_query": qtext, "config": cfg, "partition": part, "graph": triples, "label": label}})
                continue
            if got != base:
                got, base2 = evaluate(build(triples, cfg, part), qtext), evaluate(build(triples), qtext)
                if got == base2:
                    viols.append({"sig": "prepared-query|reused-parse-differs-from-fresh-parse|%s" % label, "detail": {"query": qtext},
                                  "case": {"store_query": qtext, "config": cfg, "partition": part, "graph": triples, "label": label}})
                    continue
            if got != base:
                viols.append({"sig": "store|%s|answers-differ|%s" % (cfg, label),
                              "detail": {"query": qtext, "memory": sorted(map(repr, base.elements())), cfg: sorted(map(repr, got.elements())), "partition": part},
                              "case": {"store_query": qtext, "config": cfg, "partition": part, "graph": triples, "label": label}})
    return viols, n


PATH_GRAPHS = [C04.BIG[0], [(C04.A, C04.P, C04.A), (C04.A, C04.Q, C04.ONE)], [(C04.A, C04.P, C04.B), (C04.B, C04.P, C04.B), (C04.B, C04.Q, C04.ONE), (C04.A, C04.Q, C04.TWO)],
               [(C04.A, C04.P, C04.B), (C04.B, C04.P, C04.A), (C04.B, C04.Q, C04.ZERO)], C04.BIG[4], [(C04.A, C04.P, C04.B), (C04.B, C04.Q, C04.ONE)], []]


def check_path_orders(path, graphs):
    """A triple pattern with a property path next to ordinary patterns: every order of the patterns and both orders of the groups decide which end
    of the path is bound when it is evaluated; the answers must not depend on it."""
    pt = C11.to_sparql(path).replace("http://ex.org/p", EX + "p").replace("http://ex.org/q", EX + "q")
    q = "<%sq>" % EX
    families = [
        ["?s %s ?o . ?o %s ?v" % (pt, q), "?o %s ?v . ?s %s ?o" % (q, pt), "{ ?s %s ?o } { ?o %s ?v }" % (pt, q), "{ ?o %s ?v } { ?s %s ?o }" % (q, pt)],
        ["?s %s ?o . ?s %s ?v" % (pt, q), "?s %s ?v . ?s %s ?o" % (q, pt), "{ ?s %s ?o } { ?s %s ?v }" % (pt, q), "{ ?s %s ?v } { ?s %s ?o }" % (q, pt)],
        ["?s %s ?o . ?s %s ?v . ?o %s ?w" % (pt, q, q), "?s %s ?v . ?o %s ?w . ?s %s ?o" % (q, q, pt), "?o %s ?w . ?s %s ?o . ?s %s ?v" % (q, pt, q)],
    ]
    viols = []
    evals = 0
    gs = [build(t) for t in graphs]
    for fam in families:
        try:
            prepared = [prepareQuery("SELECT * WHERE { %s }" % body) for body in fam]
        except Exception as e:  # noqa: BLE001
            viols.append({"sig": "path-pattern-order|raises|%s|%s" % (type(e).__name__, C11.top_op(path)), "detail": {"query": fam[0], "exc": repr(e)[:200]},
                          "case": {"path_orders": path, "graph": graphs[0]}})
            continue
        for gi, g in enumerate(gs):
            answers = []
            for pq, body in zip(prepared, fam):
                evals += 1
                try:
                    answers.append(evaluate(g, pq))
                except Exception as e:  # noqa: BLE001
                    answers.append(("exc", type(e).__name__))
            if any(a != answers[0] for a in answers[1:]):
                # re-decide from fresh parses
                fresh = [evaluate(build(graphs[gi]), "SELECT * WHERE { %s }" % body) for body in fam]
                if any(a != fresh[0] for a in fresh[1:]):
                    k = [i for i, a in enumerate(fresh) if a != fresh[0]][0]
                    viols.append({"sig": "path-pattern-order|answers-differ|%s" % C11.top_op(path),
                                  "detail": {"base_query": fam[0], "variant_query": fam[k], "base": sorted(map(repr, fresh[0].elements())), "variant": sorted(map(repr, fresh[k].elements()))},
                                  "case": {"path_orders": path, "graph": graphs[gi]}})
                    break
    return viols, evals


def _str(x):
    return ("L", x, None, None)


FUNC_GRAPHS = [
    [(C04.A, C04.Q, _str("apple")), (C04.A, C04.P, _str("^a")), (C04.B, C04.Q, _str("banana")), (C04.B, C04.P, _str("^b")), (C04.B, C04.Q, _str("Apple"))],
    [(C04.A, C04.Q, _str("apple")), (C04.A, C04.P, _str("^a"))],
    [(C04.B, C04.Q, _str("banana")), (C04.B, C04.P, _str("^b")), (C04.B, C04.Q, _str("apple"))],
]
FUNC_FILTERS = ["regex(?l, ?pat)", "regex(?l, ?pat, \"i\")", "contains(?l, substr(?pat, 2))", "strstarts(?l, substr(?pat, 2))", "replace(?l, ?pat, \"X\") != ?l",
                "?l IN (?pat, \"apple\")", "if(regex(?l, ?pat), strlen(?l) > 5, strlen(?l) < 6)", "strbefore(?l, substr(?pat, 2)) = \"\"", "lcase(?l) = concat(substr(?pat, 2), \"pple\")",
                "regex(?l, concat(?pat, \"p\"))", "ucase(substr(?pat, 2)) = substr(?l, 1, 1)"]


def check_function_queries(fexpr):
    """A filter whose function arguments vary from row to row (patterns, flags and substrings taken from the data): every listed rewriting and
    every evaluation sequence of one prepared query must answer as a freshly parsed query does (no per-call-site state)."""
    p_, q_ = "<%sp>" % EX, "<%sq>" % EX
    s1, s2 = "?x %s ?l . ?x %s ?pat" % (q_, p_), "?x %s ?pat . ?x %s ?l" % (p_, q_)
    fams = [["%s FILTER(%s)" % (s1, fexpr), "%s FILTER(%s)" % (s2, fexpr)],
            ["{ %s FILTER(%s) } UNION { %s FILTER(!(%s)) }" % (s1, fexpr, s1, fexpr), "{ %s FILTER(!(%s)) } UNION { %s FILTER(%s) }" % (s1, fexpr, s1, fexpr)],
            ["{ %s } { ?x %s ?l FILTER(%s) }" % (s1, q_, "strlen(?l) > 0"), "{ ?x %s ?l FILTER(%s) } { %s }" % (q_, "strlen(?l) > 0", s1)]]
    viols = []
    n = 0
    for fam in fams:
        texts = ["SELECT * WHERE { %s }" % b for b in fam]
        for gi, triples in enumerate(FUNC_GRAPHS):
            try:
                answers = [evaluate(build(triples), t) for t in texts]
            except Exception as e:  # noqa: BLE001
                viols.append({"sig": "function-call|raises|%s" % type(e).__name__, "detail": {"query": texts[0], "exc": repr(e)[:200]}, "case": {"function": fexpr}})
                break
            n += len(texts)
            if any(a != answers[0] for a in answers[1:]):
                viols.append({"sig": "function-call|rewriting-answers-differ", "detail": {"base_query": texts[0], "variant_query": texts[1], "graph": gi,
                                                                                       "base": sorted(map(repr, answers[0].elements())), "variant": sorted(map(repr, answers[1].elements()))},
                              "case": {"function": fexpr}})
                break
    # one prepared query over every sequence of <= 3 graphs
    q = "SELECT * WHERE { %s FILTER(%s) }" % (s1, fexpr)
    try:
        fresh = [evaluate(build(t), q) for t in FUNC_GRAPHS]
        for L in (1, 2, 3):
            for seq in itertools.product(range(3), repeat=L):
                pq = prepareQuery(q)
                for pos, gi in enumerate(seq):
                    n += 1
                    got = evaluate(build(FUNC_GRAPHS[gi]), pq)
                    if got != fresh[gi]:
                        viols.append({"sig": "prepared-query|evaluation-%d-differs-from-fresh-parse|function-call" % (pos + 1),
                                      "detail": {"query": q, "sequence": list(seq), "got": sorted(map(repr, got.elements())), "fresh": sorted(map(repr, fresh[gi].elements()))},
                                      "case": {"function": fexpr}})
                        return viols, n
    except Exception as e:  # noqa: BLE001
        viols.append({"sig": "function-call|raises|%s" % type(e).__name__, "detail": {"query": q, "exc": repr(e)[:200]}, "case": {"function": fexpr}})
    return viols, n


_THOROUGH = [False]


def _batch(arg):
    kind, items = arg
    viols = []
    evals = 0
    nontriv = 0
    for it in items:
        if kind == "rewrite":
            v, n, nt = check_program(it, GRAPHS if _THOROUGH[0] else GRAPHS[:8])
            nontriv += 1 if nt else 0
        elif kind == "joins":
            v, n, nt = check_program(it, GRAPHS if _THOROUGH[0] else GRAPHS[:8], only=("operand-swap", "bgp-permutation", "prefixed-names"))
            nontriv += 1 if nt else 0
        elif kind == "functions":
            v, n = check_function_queries(it)
            nontriv += 1
        elif kind == "paths":
            v, n = check_path_orders(it, PATH_GRAPHS)
            nontriv += 1
        elif kind == "prepared-text":
            v, n = check_prepared_text(it, [GRAPHS[0], GRAPHS[3], GRAPHS[7]])
            nontriv += 1
        elif kind == "prepared":
            v, n = check_prepared(it, [GRAPHS[0], GRAPHS[3], GRAPHS[7]])
            nontriv += 1
        else:
            q, label = it[0], it[1]
            v, n = check_stores(q, INDEX_GRAPHS if len(it) > 2 else GRAPHS, label)
            nontriv += 1
        viols += v
        evals += n
    best = {}
    for v in viols:
        k = v["sig"]
        if k not in best or len(repr(v["case"])) < len(repr(best[k]["case"])):
            best[k] = v
    return list(best.values()), evals, nontriv, Counter(v["sig"] for v in viols)


def store_queries(thorough):
    out = []
    for p in C04.programs(1)[:: (1 if thorough else 3)]:
        out.append(("SELECT * WHERE { %s }" % S.inner(p), "pattern:" + skeleton(p)))
    for path in C11.paths_of_depth(1)[:: (1 if thorough else 2)]:
        if C11.has_inverse_negated(path):
            continue
        out.append(("SELECT ?s ?o WHERE { ?s %s ?o }" % C11.to_sparql(path).replace("http://ex.org/p", EX + "p"), "path:" + C11.top_op(path)))
    for agg in ("COUNT(*)", "COUNT(DISTINCT ?y)", "SUM(?y)", "MIN(?y)", "MAX(?y)"):
        out.append(("SELECT ?x (%s AS ?a) WHERE { ?x <%sq> ?y } GROUP BY ?x" % (agg, EX), "aggregate"))
    out.append(("SELECT DISTINCT ?y WHERE { ?x ?p ?y } ORDER BY ?y LIMIT 2", "modifiers"))
    # every access path of a store: each of the 8 bound/unbound shapes of one triple pattern, and the shapes a join pushes into its second operand;
    # run on every graph of <= 3 triples over {A,B} x {p,q} x {A,B} (two predicates between one pair of nodes, two subjects or objects sharing the rest)
    a, b, pp = "<%sa>" % EX, "<%sb>" % EX, "<%sp>" % EX
    for sj in ("?s", a):
        for pr in ("?p", pp):
            for ob in ("?o", b, a):
                out.append(("SELECT * WHERE { %s %s %s }" % (sj, pr, ob), "access-path:%s%s%s" % ("s" if sj[0] != "?" else "-", "p" if pr[0] != "?" else "-", "o" if ob[0] != "?" else "-"), "index"))
    out.append(("SELECT * WHERE { { ?o <%sq> ?n } { ?s ?p ?o } }" % EX, "access-path:pushed-object", "index"))
    out.append(("SELECT * WHERE { { ?s <%sq> ?n } { ?s ?p ?o } }" % EX, "access-path:pushed-subject", "index"))
    out.append(("SELECT * WHERE { { ?x <%sq> ?p } UNION { ?x <%sp> ?y } ?s ?p2 ?x }" % (EX, EX), "access-path:pushed-object", "index"))
    return out


INDEX_GRAPHS = [list(c) for r in range(0, 4) for c in itertools.combinations(
    [(s_, p_, o_) for s_ in (C04.A, C04.B) for p_ in (C04.P, C04.Q) for o_ in (C04.A, C04.B)], r)]


def run(ctx):
    thorough = ctx.tier == "thorough"
    _THOROUGH[0] = thorough
    progs = C04.programs(1)
    if thorough:
        progs = progs + C04.programs(2, small_leaves=True)[len(C04.programs(1, small_leaves=True))::7]
    work = [("rewrite", sh) for sh in R.shards(progs, ctx.jobs * 8)]
    jf = join_family()
    work += [("joins", sh) for sh in R.shards(jf, ctx.jobs * 8)]
    pf = [p for p in C11.paths_of_depth(2 if thorough else 1) if not C11.has_inverse_negated(p)]
    if thorough:
        pf = pf[:: 3]
    work += [("paths", sh) for sh in R.shards(pf, ctx.jobs * 4)]
    work += [("functions", [f]) for f in FUNC_FILTERS]
    prep = progs[:: (2 if thorough else 11)]
    work += [("prepared", sh) for sh in R.shards(prep, ctx.jobs * 4)]
    work += [("prepared-text", [q]) for q in MODIFIER_QUERIES]
    sq = store_queries(thorough)
    work += [("stores", sh) for sh in R.shards(sq, ctx.jobs * 4)]
    res = R.pmap(_batch, work, ctx.jobs)
    counts = Counter()
    for viols, evals, nt, cnt in res:
        ctx.extend(viols)
        ctx.add("evaluations", evals)
        ctx.add("distinct_nontrivial", nt)
        counts.update(cnt)
    ctx.cov["queries_rewritten"] = len(progs)
    ctx.cov["join_family"] = len(jf)
    ctx.cov["path_patterns"] = len(pf)
    ctx.cov["prepared_queries"] = len(prep)
    ctx.cov["store_queries"] = len(sq)
    ctx.cov["graphs"] = len(GRAPHS)
    ctx.cov["violating_by_signature"] = dict(counts.most_common(40))
    ctx.cov["exhaustive"] = True
    ctx.cov["rule"] = ("%d queries (all C04 patterns with <=1 operator%s) x {every permutation of each BGP, every join/union operand swap, every permutation of variable names, "
                       "3 prefix tables (one with two prefixes for the same namespace), initBindings vs VALUES for ?x bound by the outermost BGP} x %d graphs; + %d joins/unions of a BGP with every one-operator pattern x {operand swap, BGP permutation, prefixes}; + every property path of operator depth <=1 as a triple pattern next to ordinary patterns in every pattern / group order (the order decides which end of the path is bound); + 11 filters calling string functions with arguments that vary per row (rewritings, and one prepared query over every sequence of <=3 graphs); %d prepared queries x every sequence of <=3 evaluations over 3 graphs "
                       "(with initBindings at each position); %d queries (patterns, property paths, aggregates) x {SimpleMemory, AuditableStore, ReadOnlyGraphAggregate over every "
                       "2-partition}. Oracle: multiset equality with the base query. Non-trivial: base answer non-empty on >=1 graph." % (
                           len(progs), " + a slice with 2" if thorough else "", len(GRAPHS), len(jf), len(prep), len(sq)))
    ctx.sample({"query": "SELECT * WHERE { %s }" % S.inner(progs[len(progs) // 3]), "variants": ["bgp-permutation", "operand-swap", "variable-renaming", "prefixed-names"]})
    ctx.assumptions += ["aggregates of overlapping graphs are not used (the property says 'the same data'); initBindings only for ?x bound by the outermost BGP in queries without sub-SELECT"]


def replay(ctx, case):
    if "function" in case:
        v, _ = check_function_queries(case["function"])
        return [{"sig": x["sig"], "case": case, "detail": x["detail"]} for x in v]
    if "path_orders" in case:
        v, _ = check_path_orders(C11._tuplify(case["path_orders"]), [[tuple(C04._fix(x) for x in t) for t in case["graph"]]])
        return [{"sig": x["sig"], "case": case, "detail": x["detail"]} for x in v]
    if "store_query" in case:
        triples = [tuple(C04._fix(x) for x in t) for t in case["graph"]]
        v, _ = check_stores(case["store_query"], [triples], case.get("label", "?"))
        return [{"sig": x["sig"], "case": case, "detail": x["detail"]} for x in v if x["case"]["config"] == case["config"]]
    if "prepared_text" in case:
        v, _ = check_prepared_text(case["prepared_text"], [[tuple(C04._fix(x) for x in t) for t in g] for g in case["graphs"]])
        return [{"sig": x["sig"], "case": case, "detail": x["detail"]} for x in v]
    pat = C04._fix(case["pattern"])
    if case["variant"] == "prepared":
        v, _ = check_prepared(pat, [GRAPHS[0], GRAPHS[3], GRAPHS[7]])
    else:
        v, _, _ = check_program(pat, GRAPHS)
        v = [x for x in v if x["case"]["variant"] == case["variant"]]
    return [{"sig": x["sig"], "case": case, "detail": x["detail"]} for x in v]


META = {
    "text": "Exhaustive differential check on the real engine: for every query of a bounded family, every rewriting of each listed kind is generated completely (all "
            "permutations of each BGP, every operand swap, every variable permutation, three prefix tables, initBindings vs VALUES) and evaluated on a graph family; one "
            "prepared query object is driven through every sequence of up to three evaluations over three graphs and compared with fresh parses; the same data is "
            "queried through both in-memory stores, the auditable wrapper and a read-only aggregate over every 2-partition. Multisets of solutions must coincide.",
    "note": "No reference evaluator is involved (C04 covers conformance); small scope: <=1-2 operators, 12 graphs with <=5 triples; disjoint partitions only. Stores: all 12 bound/unbound shapes of a triple pattern + 3 pushed-join shapes on every graph of <=3 triples over {a,b}x{p,q}x{a,b}; "
            "prepared queries with solution modifiers: every sequence of <=4 evaluations over 3 graphs, answers compared as sequences.",
    "technique": "exhaustive enumeration of semantics-preserving rewritings, evaluation sequences and store configurations with a differential oracle",
}
