"""C13 - reading a graph never changes it: serialise, query, compare are pure.

States: every dataset of a small universe (triples shared between graphs, blank-node-named and empty
graphs, default_union on/off) and plain graphs. Alphabet of read-only calls: all serializers, SPARQL
SELECT/ASK/CONSTRUCT/DESCRIBE (GRAPH, FROM, FROM NAMED), property paths, isomorphism / canonical forms /
graph_diff, iteration, len, slicing, quads, graphs, membership with the graph given as identifier, as
a view and as a Graph backed by another store. Every ordered pair of reads (incl. the same read twice)
is executed in every state; the store snapshot must not change and the second answer of a repeated
read must equal the first.
"""
from __future__ import annotations

import itertools
import os
import warnings
from collections import Counter

from rdflib import Dataset, Graph, URIRef
from rdflib.compare import graph_diff, isomorphic, to_canonical_graph, to_isomorphic
from rdflib.graph import DATASET_DEFAULT_GRAPH_ID
from rdflib.paths import MulPath
from rdflib.plugins.sparql import prepareQuery

from .. import run as R
from .. import seams
from ..canon import canon_rows, iso, tkey
from ..rt import B, EX, I, L, dataset_from, dataset_rows, graph_from, graph_rows, mk
from .C06 import TRIPLES, universe

ID = "C13"
LEVEL = "model_checking"

GFORMATS = ["nt", "turtle", "longturtle", "n3", "xml", "pretty-xml", "json-ld", "hext"]
DFORMATS = ["nquads", "trig", "trix", "json-ld", "hext", "patch"]
P = URIRef(EX + "p")
A = URIRef(EX + "a")
G1 = URIRef(EX + "g1")


REMOTE_PATH = "/var/tmp/verif_c13_remote.ttl"   # written by run()/replay(), removed afterwards
REMOTE_URL = "file://" + REMOTE_PATH


def _write_remote():
    with open(REMOTE_PATH + ".tmp", "w") as f:
        f.write("<%sr1> <%sp> <%sr2> .\n<%sr2> <%sp> \"remote\" .\n" % (EX, EX, EX, EX, EX))
    os.replace(REMOTE_PATH + ".tmp", REMOTE_PATH)


def _rows_of_result(res):
    if res.type == "ASK":
        return ("ask", res.askAnswer)
    if res.type in ("CONSTRUCT", "DESCRIBE"):
        return ("graph", canon_rows(graph_rows(res.graph)))
    out = Counter()
    seq = []
    for b in res.bindings:
        r = tuple(sorted((str(v), tkey(t)) for v, t in b.items()))
        out[r] += 1
        seq.append(r)
    # the sequence is part of the answer: "the same read twice" is the same call on the same unchanged store, so even an order the query leaves
    # open is produced by the same deterministic walk
    return ("rows", tuple(sorted(out.items(), key=repr)), tuple(seq))


QUERIES = {
    "select-all": "SELECT * WHERE { ?s ?p ?o }",
    "select-graph": "SELECT * WHERE { GRAPH ?g { ?s ?p ?o } }",
    "select-graph-g1": "SELECT * WHERE { GRAPH <%sg1> { ?s ?p ?o } }" % EX,
    "select-union": "SELECT * WHERE { { ?s <%sp> ?o } UNION { GRAPH ?g { ?s <%sq> ?o } } }" % (EX, EX),
    "select-optional": "SELECT * WHERE { ?s <%sp> ?o OPTIONAL { ?o <%sp> ?z } }" % (EX, EX),
    "select-from": "SELECT * FROM <%sg1> WHERE { ?s ?p ?o }" % EX,
    # FROM a document that is NOT a graph of the dataset and is fetched (SPARQL_LOAD_GRAPHS is on by default): it may be read, the dataset may not change
    "select-from-file": "SELECT * FROM <%s> WHERE { ?s ?p ?o }" % REMOTE_URL,
    "select-from-file+named": "SELECT * FROM <%s> FROM NAMED <%sg1> WHERE { { ?s ?p ?o } UNION { GRAPH ?g { ?s ?p ?o } } }" % (REMOTE_URL, EX),
    "select-from-named": "SELECT * FROM NAMED <%sg1> WHERE { GRAPH ?g { ?s ?p ?o } }" % EX,
    "select-path": "SELECT * WHERE { ?s <%sp>* ?o }" % EX,
    "select-agg": "SELECT ?s (COUNT(?o) AS ?n) WHERE { ?s ?p ?o } GROUP BY ?s",
    "select-ordered": "SELECT * WHERE { ?s ?p ?o } ORDER BY ?s DESC(?o)",
    "select-ordered-3": "SELECT ?o ?p WHERE { ?s ?p ?o } ORDER BY DESC(?p) ?o DESC(?s) LIMIT 3",
    "ask": "ASK { ?s <%sp> ?o }" % EX,
    "ask-graph": "ASK { GRAPH ?g { ?s ?p ?o } }",
    "construct": "CONSTRUCT { ?o <%sr> ?s } WHERE { ?s ?p ?o FILTER(isIRI(?o)) }" % EX,
    "construct-graph": "CONSTRUCT { ?s ?p ?o } WHERE { GRAPH ?g { ?s ?p ?o } }",
    "describe": "DESCRIBE <%sa>" % EX,
    "describe-var": "DESCRIBE ?s WHERE { ?s <%sp> ?o }" % (EX,),
}


def reads_for(kind):
    """List of (name, function(obj) -> comparable answer)."""
    out = []
    fmts = DFORMATS if kind == "dataset" else GFORMATS

    def ser(fmt):
        def f(x):
            kw = {"operation": "add"} if fmt == "patch" else {}
            return ("text", x.serialize(format=fmt, **kw))
        return f

    for fmt in fmts:
        out.append(("serialize:" + fmt, ser(fmt)))

    def ser_base(fmt):
        # a base that some IRIs of the data merely start with (no trailing slash)
        return lambda x: ("text", x.serialize(format=fmt, base=EX + "p"))

    for fmt in fmts:
        if fmt not in ("nt", "nquads", "hext", "patch", "trix"):
            out.append(("serialize+base:" + fmt, ser_base(fmt)))

    def q(text):
        return lambda x: _rows_of_result(x.query(text))

    for name, text in QUERIES.items():
        if kind == "graph" and ("graph" in name or "from" in name):
            continue
        out.append(("query:" + name, q(text)))
    # one prepared query object handed to both reads of a pair (built in run_pair, like the path objects)
    for name in PREPARED:
        out.append(("prepared:" + name, (lambda nm: lambda x: _rows_of_result(x.query(_prepared(nm))))(name)))
    # the path objects are built once per pair of reads (run_pair) and shared by both reads: "the same read twice" passes the same argument objects
    out.append(("path:triples", lambda x: ("set", frozenset((tkey(s), tkey(o)) for s, _, o in x.triples((None, _ENV["star"], None))))))
    out.append(("path:objects", lambda x: ("set", frozenset(tkey(o) for o in x.objects(A, _ENV["seq"])))))
    out.append(("path:subjects", lambda x: ("set", frozenset(tkey(s_) for s_ in x.subjects(_ENV["seq"], URIRef(EX + "b"))))))
    out.append(("path:slice-backward", lambda x: ("set", frozenset(tkey(s_) for s_ in x[:_ENV["seq3"]:URIRef(EX + "b")]))))
    out.append(("path:alt-inv", lambda x: ("set", frozenset((tkey(s_), tkey(o)) for s_, _, o in x.triples((None, _ENV["altinv"], None))))))
    out.append(("path:neg", lambda x: ("set", frozenset((tkey(s_), tkey(o)) for s_, _, o in x.triples((A, _ENV["neg"], None))))))
    out.append(("iter", lambda x: ("n", len(list(iter(x))))))
    out.append(("len", lambda x: ("n", len(x))))
    out.append(("slice", lambda x: ("set", frozenset(tkey(o) for o in x[A:P]))))
    out.append(("contains-triple", lambda x: ("b", (A, P, URIRef(EX + "b")) in x)))
    out.append(("triples-pattern", lambda x: ("n", len(list(x.triples((A, None, None)))))))
    out.append(("subjects", lambda x: ("set", frozenset(tkey(s) for s in x.subjects()))))
    if kind == "graph":
        out.append(("isomorphic-self-copy", lambda x: ("b", isomorphic(x, _copy(x)))))
        out.append(("to_isomorphic", lambda x: ("h", to_isomorphic(x).internal_hash())))
        out.append(("to_canonical_graph", lambda x: ("set", frozenset(graph_rows(to_canonical_graph(x))))))
        out.append(("graph_diff", lambda x: ("n", tuple(len(g) for g in graph_diff(x, _copy(x))))))
        out.append(("skolemize", lambda x: ("n", len(x.skolemize()))))
        out.append(("all_nodes", lambda x: ("n", len(x.all_nodes()))))
        out.append(("binop", lambda x: ("n", (len(x + _other()), len(x - _other()), len(x * _other())))))
    else:
        out.append(("quads", lambda x: ("n", len(list(x.quads((None, None, None, None)))))))
        out.append(("quads-g1", lambda x: ("n", len(list(x.quads((None, None, None, G1)))))))
        out.append(("graphs", lambda x: ("set", frozenset(tkey(g.identifier) for g in x.graphs()))))
        out.append(("contexts-of-triple", lambda x: ("set", frozenset(tkey(g.identifier) for g in x.contexts((A, P, URIRef(EX + "b")))))))
        out.append(("quad-in-by-id", lambda x: ("b", (A, P, URIRef(EX + "b"), G1) in x)))
        out.append(("quad-in-by-view", lambda x: ("b", (A, P, URIRef(EX + "b"), Graph(x.store, G1)) in x)))
        out.append(("quad-in-by-foreign-graph", lambda x: ("b", (A, P, URIRef(EX + "b"), _foreign()) in x)))
        out.append(("quad-in-by-unknown-id", lambda x: ("b", (A, P, URIRef(EX + "b"), URIRef(EX + "nowhere")) in x)))
        out.append(("triples-context-view", lambda x: ("n", len(list(x.triples((None, None, None), context=Graph(x.store, G1)))))))
        out.append(("triples-context-foreign", lambda x: ("n", len(list(x.triples((None, None, None), context=_foreign()))))))
        out.append(("get-default-graph-len", lambda x: ("n", len(x.default_graph))))
        out.append(("iso-of-default", lambda x: ("h", to_isomorphic(x.default_graph).internal_hash())))
    return out


def _copy(g):
    c = Graph(bind_namespaces="none")
    for t in g:
        c.add(t)
    return c


def _other():
    g = Graph(bind_namespaces="none")
    g.add((A, P, URIRef(EX + "b")))
    g.add((A, P, URIRef(EX + "zz")))
    return g


def _foreign():
    """A Graph on another store, named like a graph of the dataset, holding a triple the dataset lacks."""
    g = Graph(identifier=G1, bind_namespaces="none")
    g.add((URIRef(EX + "foreign"), P, URIRef(EX + "foreign")))
    return g


def snapshot(x, kind):
    with warnings.catch_warnings():
        warnings.simplefilter("ignore")
        if kind == "graph":
            return (frozenset(graph_rows(x)), len(x))
        rows = set()
        names = set()
        dk = tkey(DATASET_DEFAULT_GRAPH_ID)
        for c in list(x.store.contexts()):
            ck = tkey(c.identifier)
            if ck != dk:
                names.add(ck)
            for s, p, o in Graph(x.store, c.identifier):
                rows.add((tkey(s), tkey(p), tkey(o), None if ck == dk else ck))
        for s, p, o in Graph(x.store, DATASET_DEFAULT_GRAPH_ID):
            rows.add((tkey(s), tkey(p), tkey(o), None))
        return (frozenset(rows), frozenset(names), frozenset(dataset_rows(x)))


def build(state):
    kind, content, union = state
    if kind == "graph":
        return graph_from([tuple(q[:3]) for q in content])
    ds = dataset_from([tuple(q) for q in content], default_union=union)
    # an empty named graph that exists
    ds.graph(URIRef(EX + "empty"))
    return ds


def same_answer(a, b):
    if a == b:
        return True
    if a[0] == "text" and b[0] == "text":
        return len(a[1]) == len(b[1])  # same document up to blank-node labels / ordering
    return False


_ENV = {}


PREPARED = ["select-ordered", "select-ordered-3", "select-optional", "select-agg", "select-path", "construct", "describe-var"]


def _prepared(name):
    # parsed at its first use within a pair of reads (run_pair clears _ENV), then shared by the second read
    k = "prepared:" + name
    if k not in _ENV:
        _ENV[k] = prepareQuery(QUERIES[name])
    return _ENV[k]


def fresh_paths():
    Q = URIRef(EX + "q")
    return {"star": MulPath(P, "*"), "seq": P / P, "seq3": P / P / P, "altinv": (P | ~P) / P, "neg": -(P | Q) | P}


def run_pair(state, n1, n2, reads, horizon=20.0):
    kind = state[0]
    x = build(state)
    _ENV.clear()
    _ENV.update(fresh_paths())
    before = snapshot(x, kind)
    answers = []
    for name in (n1, n2):
        f = reads[name]
        try:
            with seams.watchdog(horizon), warnings.catch_warnings():
                warnings.simplefilter("ignore")
                ans = f(x)
        except seams.Timeout:
            return ("%s|does-not-terminate" % name, {})
        except Exception as e:  # noqa: BLE001
            ans = ("exc", type(e).__name__)
        answers.append(ans)
        after = snapshot(x, kind)
        if after != before:
            what = "triples-or-quads-changed" if after[0] != before[0] or (kind != "graph" and after[2] != before[2]) else "set-of-graphs-changed"
            added = sorted(after[0] - before[0], key=repr)[:4]
            removed = sorted(before[0] - after[0], key=repr)[:4]
            return ("%s|%s|%s" % (name, kind, what), {"added": added, "removed": removed,
                                                     "graphs_before": sorted(before[1], key=repr) if kind != "graph" else None,
                                                     "graphs_after": sorted(after[1], key=repr) if kind != "graph" else None})
    if n1 == n2 and not same_answer(answers[0], answers[1]):
        return ("%s|%s|second-answer-differs" % (n1, kind), {"first": repr(answers[0])[:300], "second": repr(answers[1])[:300]})
    return None


_READS = {}


def _get_reads(kind):
    if kind not in _READS:
        _READS[kind] = dict(reads_for(kind))
    return _READS[kind]


def _batch(items):
    viols = []
    n = 0
    nontriv = 0
    for state, pairs in items:
        kind = state[0]
        reads = _get_reads("graph" if kind == "graph" else "dataset")
        named = {q[3][0] if q[3] else None for q in state[1]} if kind != "graph" else set()
        for n1, n2 in pairs:
            n += 1
            if kind != "graph" and (len(named) >= 2 or "B" in named):
                nontriv += 1
            v = run_pair(state, n1, n2, reads)
            if v:
                viols.append({"sig": v[0], "detail": v[1], "case": {"state": [kind, [[list(x) if x is not None else None for x in q] for q in state[1]], state[2]], "reads": [n1, n2]}})
    return viols, n, nontriv


def run(ctx):
    thorough = ctx.tier == "thorough"
    dreads = [n for n, _ in reads_for("dataset")]
    greads = [n for n, _ in reads_for("graph")]
    items = []

    def pairs_of(reads):
        # every ordered pair of reads; the prepared-query reads are paired with themselves and with each other only
        plain = [n for n in reads if not n.startswith(("prepared:", "serialize+base:"))]
        prep = [n for n in reads if n.startswith("prepared:")]
        based = [n for n in reads if n.startswith("serialize+base:")]
        return [(a, b) for a in plain for b in plain] + [(a, b) for a in prep for b in prep] + [(a, b) for a in based for b in based]

    # datasets: every ordered pair of reads on the small universe, single reads (x2) on the larger one
    small = list(universe(2))
    large = list(universe(4 if thorough else 3))
    for union in (False, True):
        for content in small:
            items.append((("dataset", content, union), pairs_of(dreads)))
        for content in large:
            items.append((("dataset", content, union), [(a, a) for a in dreads]))
    if thorough:
        mid = list(universe(3))
        for content in mid[:: 4]:
            items.append((("dataset", content, False), pairs_of(dreads)))
    # plain graphs: all subsets of the universe triples (+ the 5th), every ordered pair of reads
    for r in range(0, len(TRIPLES) + 1):
        for sub in itertools.combinations(TRIPLES, r):
            items.append((("graph", [t + (None,) for t in sub], False), pairs_of(greads)))
    # terms that make writers hesitate about prefixes: a datatype and a predicate in namespaces without prefix, a local name ending in a dot,
    # a predicate that merely starts with the base; every subset next to the universe triples, each read twice
    from ..rt import I as _I, L as _L
    EXTRA = [(_I("a"), _I("pz"), _L("A-1", dt="http://dt.example/t#code")), (_I("a"), ["I", "http://o.example/x#bar.", None, None], _I("b")),
             (["I", "http://o.example/x#foo", None, None], _I("p"), _L("x"))]
    for r in range(1, len(EXTRA) + 1):
        for sub in itertools.combinations(EXTRA, r):
            for base in ([], [TRIPLES[0]], list(TRIPLES)):
                items.append((("graph", [t + (None,) for t in list(sub) + base], False), [(a, a) for a in greads]))
                items.append((("dataset", [t + (None,) for t in base] + [t + (_I("g1"),) for t in sub], False), [(a, a) for a in dreads]))
    # split the heavy items
    work = []
    for state, pairs in items:
        for sh in R.shards(pairs, max(1, len(pairs) // 400)):
            work.append((state, sh))
    _write_remote()
    try:
        res = R.pmap(_batch, R.shards(work, ctx.jobs * 8), ctx.jobs)
    finally:
        try:
            os.remove(REMOTE_PATH)
        except OSError:
            pass
    tr = 0
    for viols, n, nt in res:
        ctx.extend(viols)
        tr += n
        ctx.add("nontrivial_transitions", nt)
    ctx.cov["states"] = len(items)
    ctx.cov["transitions"] = tr * 2
    ctx.cov["traces_validated_against_impl"] = tr
    ctx.cov["dataset_reads"] = len(dreads)
    ctx.cov["graph_reads"] = len(greads)
    ctx.cov["exhaustive"] = True
    ctx.cov["rule"] = ("states = datasets of the C06 universe (%d small x union on/off with every ordered pair of %d reads; %d larger with every read twice) and all "
                       "%d plain graphs (every ordered pair of %d reads); each state also holds an existing empty named graph. A transition is one read call; the "
                       "store snapshot (quads per graph read through views, set of named graphs known to the store, quads()) is compared before/after; "
                       "repeated reads must answer the same. Non-trivial: >=2 non-empty graphs or a blank-node-named graph." % (
                           len(small), len(dreads), len(large), 2 ** len(TRIPLES), len(greads)))
    ctx.sample({"state": ["dataset", [[list(x) if x is not None else None for x in q] for q in small[-1]], False], "reads": ["serialize:json-ld", "quad-in-by-foreign-graph"]})
    ctx.assumptions += ["Dataset.graph(name) is documented as creating the graph and is not in the read alphabet; registering the default graph in the store is not a change",
                        "serialisations of a repeated read are compared by length (labels and order may differ)"]


def replay(ctx, case):
    kind, content, union = case["state"]
    state = (kind, [tuple(None if x is None else list(x) for x in q) for q in content], union)
    reads = _get_reads("graph" if kind == "graph" else "dataset")
    _write_remote()
    try:
        v = run_pair(state, case["reads"][0], case["reads"][1], reads, horizon=60.0)
    finally:
        try:
            os.remove(REMOTE_PATH)
        except OSError:
            pass
    return [{"sig": v[0], "case": case, "detail": v[1]}] if v else []


META = {
    "text": "Exhaustive exploration of read-only call sequences on the real objects: in every dataset of a small universe (shared triples, blank-node-named, "
            "empty and existing-empty graphs, default_union on and off) and every plain graph over the universe triples, every ordered pair of reads from an "
            "alphabet of ~45 calls (all serializers, 15 SPARQL queries incl. GRAPH/FROM/FROM NAMED/DESCRIBE, paths, isomorphism and canonicalisation, "
            "graph_diff, iteration, slicing, quads, graphs, membership with the graph as identifier / view / foreign Graph) is executed; a snapshot of the "
            "store taken through independent views must be identical afterwards and a repeated read must give the same answer.",
    "note": "Small scope: 2-4 universe triples x 3 graph names; pairs of reads (length-2 sequences); queries without RAND/NOW/UUID/BNODE(); path objects and seven prepared query objects are shared by both reads of a pair; SELECT answers keep their order; "
            "writes with a base some IRIs merely start with; three terms that make writers hesitate about prefixes.",
    "technique": "exhaustive enumeration of read-call pairs over a state family with a store-snapshot invariant",
}
