"""C07 - RDF terms obey identity laws: equality, hashing, ordering, pickling, n3 text.

Exhaustive over all ordered pairs (and, through the equivalence-class structure, all triples) of a
term alphabet that crosses every kind with shared text, every recognised XSD datatype with valid /
non-canonical / invalid lexical forms, language-case variants, NaN/INF, naive/aware date-times and
all short strings over the character alphabet.
"""
from __future__ import annotations

import copy
import itertools
import pickle

import rdflib
from rdflib import Graph
from rdflib.namespace import RDF, XSD
from rdflib.term import BNode, Literal, URIRef, Variable, XSDToPython
from rdflib.util import from_n3

from .. import run as R
from ..canon import tkey

ID = "C07"
LEVEL = "exploration"

SIGMA = ["a", '"', "'", "\\", "\n", "\r", "\t", " ", "é", "\U0001F600", ".", "#"]

NUMERIC = {XSD[n] for n in ("integer", "decimal", "double", "float", "long", "int", "short", "byte", "unsignedLong", "unsignedInt", "unsignedShort", "unsignedByte",
                           "nonNegativeInteger", "positiveInteger", "negativeInteger", "nonPositiveInteger")}

LEX = {
    "integer": ["1", "01", "+1", "-0", "0", "abc", "", " 1", "1.0", "500"],
    "decimal": ["1.0", "1", "01.10", ".5", "-0.0", "1e0", "x"],
    "double": ["1.0E0", "1e0", "1.0", "NaN", "INF", "-INF", "+INF", "-0.0", "0", "1.5e300", "nan", "inf"],
    "float": ["1.0", "NaN", "INF", "-INF", "1e0"],
    "boolean": ["true", "false", "1", "0", "TRUE", "maybe"],
    "string": ["", "a", "1", " a "],
    "dateTime": ["2024-01-01T00:00:00", "2024-01-01T00:00:00Z", "2024-01-01T05:30:00+05:30", "2024-01-01T00:00:00.5", "2024-13-01T00:00:00", "x"],
    "date": ["2024-01-01", "2024-01-01Z", "2024-02-30", "-0001-01-01"],
    "time": ["00:00:00", "00:00:00Z", "24:00:00", "25:00:00"],
    "duration": ["P1D", "PT24H", "P1Y", "P12M", "-P1D", "P"],
    "dayTimeDuration": ["P1D", "PT24H", "PT0S"],
    "yearMonthDuration": ["P1Y", "P12M"],
    "gYear": ["2024", "-0001", "10000"],
    "gYearMonth": ["2024-01", "2024-13"],
    "hexBinary": ["0A", "0a", "0", ""],
    "base64Binary": ["AA==", "AA", "!"],
    "anyURI": ["http://ex.org/a", "a b"],
    "long": ["1", "9223372036854775808"],
    "int": ["1", "2147483648"],
    "short": ["1", "32768"],
    "byte": ["1", "128", "-129", "999"],
    "unsignedInt": ["1", "-1"],
    "unsignedByte": ["255", "256"],
    "nonNegativeInteger": ["0", "-1"],
    "positiveInteger": ["1", "0"],
    "negativeInteger": ["-1", "0"],
    "nonPositiveInteger": ["0", "1"],
    "normalizedString": ["a", "a\tb"],
    "token": ["a", " a  b "],
    "language": ["en", "en-US"],
}


def alphabet(thorough):
    """List of term descriptors [kind, text, datatype, lang]."""
    out = []
    for text in ["a", "b", "B1", "http://ex.org/a", "http://ex.org/b", "http://ex.org/A", "urn:x", "N0"]:
        out.append(["I", text, None, None])
        out.append(["B", text.replace(":", "").replace("/", "").replace(".", ""), None, None])
        out.append(["V", text.replace(":", "").replace("/", "").replace(".", ""), None, None])
        out.append(["L", text, None, None])
    for dt, forms in LEX.items():
        for f in forms:
            out.append(["L", f, str(XSD[dt]), None])
    for dt in sorted(str(k) for k in XSDToPython if k is not None):
        if dt.startswith(str(XSD)) and dt[len(str(XSD)):] in LEX:
            continue
        if dt.endswith("#HTML"):
            continue
        for f in ["", "a", "1"]:
            out.append(["L", f, dt, None])
    out.append(["L", "1", "http://ex.org/dt", None])
    out.append(["L", "01", "http://ex.org/dt", None])
    out.append(["L", "<a/>", str(RDF.XMLLiteral), None])
    out.append(["L", "<a></a>", str(RDF.XMLLiteral), None])
    for text, lang in [("x", "en"), ("x", "EN"), ("x", "en-US"), ("x", "en-us"), ("", "en"), ("x", "fr"), ("a", "en")]:
        out.append(["L", text, None, lang])
    n = 2
    strings = [""]
    for k in range(1, n + 1):
        strings += ["".join(p) for p in itertools.product(SIGMA, repeat=k)]
    for s in strings:
        if s not in ("a",):
            out.append(["L", s, None, None])
    for s in strings:
        if len(s) <= (2 if thorough else 1):
            out.append(["L", s, str(XSD.string), None])
            out.append(["L", s, None, "en"])
    # the same terms reached through other constructor routes (kind "L:<route>"): term identity is decided on what the term IS (lexical form,
    # datatype, language), not on how it was built
    for route, text, dt, lang in [("int", "1", None, None), ("int", "0", None, None), ("int+lang", "1", None, "en"), ("bool+lang", "true", None, "en"), ("float+lang", "2.5", None, "en"),
                                  ("int+dt", "1", str(XSD.integer), None), ("bool", "false", None, None), ("float", "2.5", None, None), ("decimal", "1.5", None, None),
                                  ("copy", "x", None, "en"), ("copy", "1", str(XSD.integer), None), ("copy", "", None, None), ("copy+lang", "x", None, "fr"),
                                  ("bytes", "x", None, None), ("bytes", "", None, None), ("bytes+dt", "true", str(XSD.boolean), None), ("bytes+dt", "1", str(XSD.integer), None),
                                  ("unnormalized", "01", str(XSD.integer), None), ("unnormalized", "1", str(XSD.boolean), None), ("str-subclass", "http://ex.org/a", None, None),
                                  ("str-subclass+lang", "a", None, "en")]:
        out.append(["L:" + route, text, dt, lang])
    # de-duplicate descriptors
    seen = set()
    res = []
    for d in out:
        k = tuple(d)
        if k not in seen:
            seen.add(k)
            res.append(d)
    return res


def mk(d):
    kind, text, dt, lang = d
    if kind == "I":
        return URIRef(text)
    if kind == "B":
        return BNode(text)
    if kind == "V":
        return Variable(text)
    if kind.startswith("L:"):
        route = kind[2:]
        D = None if dt is None else URIRef(dt)
        if route in ("int", "int+lang", "int+dt"):
            return Literal(int(text), lang=lang, datatype=D)
        if route in ("bool", "bool+lang"):
            return Literal(text == "true", lang=lang)
        if route in ("float", "float+lang"):
            return Literal(float(text), lang=lang)
        if route == "decimal":
            from decimal import Decimal
            return Literal(Decimal(text))
        if route == "copy":
            return Literal(Literal(text, datatype=D, lang=lang))
        if route == "copy+lang":
            return Literal(Literal(text), lang=lang)
        if route == "bytes":
            return Literal(text.encode("utf-8"))
        if route == "bytes+dt":
            return Literal(text.encode("utf-8"), datatype=D)
        if route == "unnormalized":
            return Literal(text, datatype=D, normalize=False)
        if route == "str-subclass":
            return Literal(URIRef(text))
        if route == "str-subclass+lang":
            return Literal(Variable(text), lang=lang)
        raise ValueError(route)
    return Literal(text, datatype=None if dt is None else URIRef(dt), lang=lang)


RANK = {BNode: 10, Variable: 20, URIRef: 30, Literal: 40}


def _ops(a, b):
    return {"lt": a < b, "gt": a > b, "le": a <= b, "ge": a >= b}


def pair_check(da, db):
    """All pairwise laws for one ordered pair; returns list of (sig, detail)."""
    a, b = mk(da), mk(db)
    ka, kb = tkey(a), tkey(b)
    v = []
    same = ka == kb
    try:
        e1 = (a == b)
        e2 = (b == a)
        ne = (a != b)
    except Exception as ex:  # noqa: BLE001
        return [("eq-raises", {"exc": repr(ex)})]
    kinds = "%s-%s" % (ka[0], kb[0])
    if e1 != e2:
        v.append(("eq-not-symmetric|" + kinds, {"a==b": e1, "b==a": e2}))
    if e1 != same:
        why = "lang-case" if (ka[0] == "L" and kb[0] == "L" and ka[1:3] == kb[1:3]) else "same-text" if ka[1] == kb[1] else "other"
        v.append(("eq-differs-from-term-identity|%s|%s" % (kinds, why), {"a==b": e1, "identical_terms": same}))
    if ne == e1:
        v.append(("ne-not-negation-of-eq|" + kinds, {}))
    if e1 and hash(a) != hash(b):
        v.append(("equal-terms-different-hash|" + kinds, {}))
    # ordering (for two literals only what sorting uses, < and >, is required not to raise:
    # <= and >= legitimately raise TypeError for literals rdflib cannot compare in value space)
    try:
        if type(a) is Literal and type(b) is Literal:
            o = {"lt": a < b, "gt": a > b}
        else:
            o = _ops(a, b)
    except Exception as ex:  # noqa: BLE001
        v.append(("compare-raises|%s|%s" % (kinds, type(ex).__name__), {"exc": repr(ex)[:200]}))
        return v
    ta, tb = type(a), type(b)
    if ta is Literal and tb is Literal:
        # what any reproducible sort needs of the literal order, whatever that order is: a term is not before itself, and no two literals are each before the other
        try:
            r = {"lt": b < a, "gt": b > a}
        except Exception as ex:  # noqa: BLE001
            v.append(("compare-raises|%s|%s" % (kinds, type(ex).__name__), {"exc": repr(ex)[:200]}))
            return v
        cls = _order_class(a, b)
        if same and (o["lt"] or o["gt"]):
            v.append(("literal-order|term-before-itself|" + cls, {"ops": o}))
        elif (o["lt"] and r["lt"]) or (o["gt"] and r["gt"]):
            v.append(("literal-order|each-before-the-other|" + cls, {"a?b": o, "b?a": r}))
        elif o["lt"] != r["gt"] or o["gt"] != r["lt"]:
            v.append(("literal-order|less-is-not-converse-of-greater|" + cls, {"a?b": o, "b?a": r}))
    if ta is not tb:
        exp_lt = RANK[ta] < RANK[tb]
        if o["lt"] != exp_lt or o["gt"] != (not exp_lt) or o["le"] != exp_lt or o["ge"] != (not exp_lt):
            v.append(("kind-order-wrong|" + kinds, {"ops": o, "expected_a_lt_b": exp_lt}))
    elif ta is not Literal:
        sa, sb = str.__str__(a), str.__str__(b)
        exp = {"lt": sa < sb, "gt": sa > sb, "le": sa <= sb, "ge": sa >= sb}
        if o != exp:
            v.append(("same-kind-order-not-string-order|" + kinds, {"ops": o, "expected": exp}))
    return v


def _order_class(*ts):
    parts = set()
    for t in ts:
        if t.language:
            parts.add("lang")
        elif t.datatype is None or t.datatype == XSD.string:
            parts.add("string")
        elif t.datatype in NUMERIC:
            parts.add("numeric:nan" if (isinstance(t.value, float) and t.value != t.value) else "numeric:ill-typed" if t.ill_typed else "numeric")
        else:
            parts.add("other:ill-typed" if t.ill_typed else "other")
    return ",".join(sorted(parts))


def _edge_class(x, y):
    """One step x < y of a cycle: the kinds of the two literals and which candidate orders the step follows (value / datatype IRI / lexical form)."""
    kinds = "~".join(sorted([_order_class(x), _order_class(y)]))
    follows = []
    try:
        if x.datatype in NUMERIC and y.datatype in NUMERIC and x.value is not None and y.value is not None and x.value < y.value:
            follows.append("value")
    except Exception:  # noqa: BLE001
        pass
    dx, dy = str(x.datatype or XSD.string), str(y.datatype or XSD.string)
    if dx < dy:
        follows.append("datatype")
    if not follows:
        follows.append("form" if str.__str__(x) < str.__str__(y) else "other")
    return "%s:%s%s" % (kinds, "same-datatype," if dx == dy else "", "/".join(follows))


def single_check(d, graph_check=True):
    t = mk(d)
    k = tkey(t)
    v = []
    kind = k[0]
    if not (t == t) or hash(t) != hash(mk(d)) or not (t == mk(d)):
        v.append(("not-reflexive-or-unstable-hash|" + kind, {}))
    # pickling / copying
    for proto in range(0, pickle.HIGHEST_PROTOCOL + 1):
        try:
            u = pickle.loads(pickle.dumps(t, protocol=proto))
            if type(u) is not type(t) or tkey(u) != k or not (u == t):
                v.append(("pickle-changes-term|" + kind, {"protocol": proto, "got": tkey(u)}))
                break
        except Exception as ex:  # noqa: BLE001
            v.append(("pickle-raises|" + kind, {"protocol": proto, "exc": repr(ex)}))
            break
    for name, fn in (("copy", copy.copy), ("deepcopy", copy.deepcopy)):
        try:
            u = fn(t)
            if type(u) is not type(t) or tkey(u) != k or not (u == t):
                v.append(("%s-changes-term|%s" % (name, kind), {"got": tkey(u)}))
        except Exception as ex:  # noqa: BLE001
            v.append(("%s-raises|%s" % (name, kind), {"exc": repr(ex)}))
    if d[0] == "L:unnormalized":
        # a literal built with normalize=False keeps its form; every reader builds literals with the default (NORMALIZE_LITERALS) and replaces the
        # form by the normal one, by design: the read-back clauses are demanded of terms as the library creates them by default
        return v
    # n3 text read back
    try:
        n3 = t.n3()
    except Exception as ex:  # noqa: BLE001
        v.append(("n3-raises|" + kind, {"exc": repr(ex)}))
        return v
    cls = _char_class(d)
    try:
        u = from_n3(n3)
        if type(u) is not type(t) or tkey(u) != k:
            v.append(("from_n3-differs|%s|%s" % (kind, cls), {"n3": n3, "got": tkey(u) if u is not None else None}))
    except Exception as ex:  # noqa: BLE001
        v.append(("from_n3-raises|%s|%s" % (kind, cls), {"n3": n3, "exc": repr(ex)[:200]}))
    absolute = kind == "L" or (kind == "I" and ":" in d[1])
    if absolute and kind in ("I", "L"):
        s, p = URIRef("http://ex.org/s"), URIRef("http://ex.org/p")
        try:
            g = Graph(bind_namespaces="none").parse(data="<http://ex.org/s> <http://ex.org/p> %s ." % n3, format="turtle")
            objs = [tkey(o) for o in g.objects(s, p)]
            if objs != [k]:
                v.append(("turtle-readback-differs|%s|%s" % (kind, cls), {"n3": n3, "got": objs}))
        except Exception as ex:  # noqa: BLE001
            v.append(("turtle-readback-raises|%s|%s" % (kind, cls), {"n3": n3, "exc": repr(ex)[:200]}))
        try:
            g = Graph(bind_namespaces="none")
            g.add((s, p, t))
            r = g.query("ASK { <http://ex.org/s> <http://ex.org/p> %s }" % n3)
            if not r.askAnswer:
                v.append(("sparql-readback-differs|%s|%s" % (kind, cls), {"n3": n3}))
        except Exception as ex:  # noqa: BLE001
            v.append(("sparql-readback-raises|%s|%s" % (kind, cls), {"n3": n3, "exc": repr(ex)[:200]}))
    return v


def _char_class(d):
    if not d[0].startswith("L"):
        return "-"
    s = d[1]
    for ch, name in (("\t", "tab"), ("\r", "cr"), ("\n", "lf"), ("\\", "backslash"), ('"', "dquote"), ("'", "squote")):
        if ch in s:
            return name
    if d[2]:
        return "typed"
    if d[3]:
        return "lang"
    return "plain"


def _pairs_batch(arg):
    rows, alpha = arg
    viols = []
    n = 0
    nontriv = 0
    for i in rows:
        for j in range(len(alpha)):
            da, db = alpha[i], alpha[j]
            n += 1
            if da[1] == db[1] or (da[2] is not None and da[2] == db[2]) or (da[3] and db[3] and da[3].lower() == db[3].lower()):
                nontriv += 1
            for sig, det in pair_check(da, db):
                viols.append({"sig": sig, "case": {"pair": [da, db]}, "detail": det})
    return viols, n, nontriv


def _singles_batch(ds):
    viols = []
    for d in ds:
        for sig, det in single_check(d):
            viols.append({"sig": sig, "case": {"term": d}, "detail": det})
    return viols, len(ds)


def _sorted_batch(arg):
    triples, pool = arg
    viols = []
    n = 0
    terms = [mk(d) for d in pool]
    for idx in triples:
        ds = [pool[i] for i in idx]
        ts = [terms[i] for i in idx]
        if all(type(t) is Literal for t in ts):
            # several literals: ties (equal values of different datatypes, unordered values) are placed by arrival order, so the sorted sequence is not
            # demanded to be the same; what is demanded is that "<" has no cycle, without which no arrival order sorts reproducibly
            try:
                n += 6
                for x, y, z in itertools.permutations(ts):
                    if x < y and y < z and z < x:
                        edges = sorted({_edge_class(x, y), _edge_class(y, z), _edge_class(z, x)})
                        viols.append({"sig": "literal-order|cycle|" + "+".join(edges), "case": {"triple": ds}, "detail": {"cycle": [tkey(x), tkey(y), tkey(z)]}})
                        break
            except Exception as ex:  # noqa: BLE001
                viols.append({"sig": "sorted-raises|%s" % type(ex).__name__, "case": {"triple": ds}, "detail": {"exc": repr(ex)[:200]}})
            continue
        try:
            ref = [tkey(x) for x in sorted(ts)]
            for perm in itertools.permutations(ts):
                n += 1
                if [tkey(x) for x in sorted(perm)] != ref:
                    viols.append({"sig": "sorted-not-reproducible", "case": {"triple": ds}, "detail": {"ref": ref}})
                    break
        except Exception as ex:  # noqa: BLE001
            viols.append({"sig": "sorted-raises|%s" % type(ex).__name__, "case": {"triple": ds}, "detail": {"exc": repr(ex)[:200]}})
    return viols, n


def run(ctx):
    thorough = ctx.tier == "thorough"
    alpha = alphabet(thorough)
    ctx.cov["alphabet_size"] = len(alpha)
    rows = list(range(len(alpha)))
    res = R.pmap(_pairs_batch, [(s, alpha) for s in R.shards(rows, ctx.jobs * 4)], ctx.jobs)
    for viols, n, nt in res:
        ctx.extend(viols)
        ctx.add("evaluations", n)
        ctx.add("distinct_nontrivial", nt)
    # collapse in set / dict / Graph: one element per identity class
    terms = [mk(d) for d in alpha]
    classes = {tkey(t) for t in terms}
    if len(set(terms)) != len(classes):
        ctx.violation("set-does-not-collapse-to-identity-classes", {"alphabet": "all"}, {"set": len(set(terms)), "classes": len(classes)})
    if len({t: 1 for t in terms}) != len(classes):
        ctx.violation("dict-does-not-collapse-to-identity-classes", {"alphabet": "all"}, {})
    g = Graph(bind_namespaces="none")
    objs = [t for t in terms if not isinstance(t, Variable)]
    for t in objs:
        g.add((URIRef("http://ex.org/s"), URIRef("http://ex.org/p"), t))
    if len(g) != len({tkey(t) for t in objs}) or {tkey(o) for o in g.objects()} != {tkey(t) for t in objs}:
        ctx.violation("graph-does-not-collapse-to-identity-classes", {"alphabet": "all"}, {"len": len(g)})
    # transitivity follows from: eq coincides with term-key identity on all pairs (checked above)
    singles = list(alpha)
    # per-term laws (pickle/copy/n3 read-back) additionally over every string of length 3 (4 in thorough)
    have = {tuple(d) for d in alpha}
    for k in ((3, 4) if thorough else (3,)):
        for p_ in itertools.product(SIGMA, repeat=k):
            d = ["L", "".join(p_), None, None]
            if tuple(d) not in have:
                singles.append(d)
    ctx.cov["single_term_cases"] = len(singles)
    res = R.pmap(_singles_batch, R.shards(singles, ctx.jobs * 4), ctx.jobs)
    for viols, n in res:
        ctx.extend(viols)
        ctx.add("evaluations", n)
    # sorted() of every 3-subset with at most one literal
    nonlit = [d for d in alpha if not d[0].startswith("L")][:30]
    lits = [d for d in alpha if d[0].startswith("L")][:: max(1, len(alpha) // 12)][:12]
    pool = nonlit + lits
    nl = len(nonlit)
    triples = [c for c in itertools.combinations(range(len(pool)), 3) if sum(1 for i in c if i >= nl) <= 1]
    res = R.pmap(_sorted_batch, [(s, pool) for s in R.shards(triples, ctx.jobs * 2)], ctx.jobs)
    for viols, n in res:
        ctx.extend(viols)
        ctx.add("sorted_calls", n)
    # every 3-subset of the numeric literals (valid, non-canonical, out of range, NaN/INF, no value) plus one literal of every other datatype / language / plain
    numeric = [d for d in alpha if d[0] == "L" and d[2] is not None and URIRef(d[2]) in NUMERIC]
    others, have_dt = [], set()
    for d in alpha:
        if d[0] == "L" and d not in numeric and (d[2], d[3]) not in have_dt:
            have_dt.add((d[2], d[3]))
            others.append(d)
    lpool = numeric + others
    ltriples = list(itertools.combinations(range(len(lpool)), 3))
    res = R.pmap(_sorted_batch, [(s, lpool) for s in R.shards(ltriples, ctx.jobs * 4)], ctx.jobs)
    for viols, n in res:
        ctx.extend(viols)
        ctx.add("literal_order_triples", n // 6)
    ctx.cov["exhaustive"] = True
    ctx.cov["rule"] = ("All ordered pairs of a %d-term alphabet (kinds sharing text, every recognised datatype x valid/non-canonical/invalid "
                       "forms, language-case variants, NaN/INF, naive/aware date-times, strings over the 12-char alphabet): eq reflexive/"
                       "symmetric/= term identity, hash, kind order, string order, no comparison raises; per term: pickle (all protocols), "
                       "copy, deepcopy, from_n3, Turtle and SPARQL read-back; sorted() of 3-subsets with <=1 literal in all 6 orders. "
                       "Non-trivial pair: shares lexical text, datatype or language." % len(alpha))
    ctx.sample({"pair": [["L", "x", None, "en"], ["L", "x", None, "EN"]]})
    ctx.sample({"term": ["L", "a\tb", None, None]})
    ctx.assumptions += ["NORMALIZE_LITERALS at its default (True); term identity is read after construction",
                        "literal-literal ordering is only required not to raise; reproducible sorting demanded for collections with at most one literal"]


def replay(ctx, case):
    out = []
    if "pair" in case:
        for sig, det in pair_check(*case["pair"]):
            out.append({"sig": sig, "case": case, "detail": det})
    elif "term" in case:
        for sig, det in single_check(case["term"]):
            out.append({"sig": sig, "case": case, "detail": det})
    elif "triple" in case:
        viols, _ = _sorted_batch(([(0, 1, 2)], case["triple"]))
        out = viols
    elif "alphabet" in case:
        c2 = R.Ctx(ID, "quick", 0, 1)
        run(c2)
        out = [v for v in c2.violations if "alphabet" in v["case"]]
    return out


META = {
    "text": "Exhaustive check of the identity laws on all ordered pairs of a term alphabet built to collide (same text across kinds, language "
            "tags differing in case, non-canonical and invalid lexical forms of every recognised datatype, NaN/INF, naive vs aware date-times, "
            "all short strings with quotes/escapes/line breaks): equality is compared with an independent term key, hashes, kind order, "
            "string order, exceptions in comparisons; per term pickling (all protocols), copy/deepcopy and n3() read back by from_n3, the "
            "Turtle parser and the SPARQL parser. Transitivity follows because equality classes are shown to coincide with term identity.",
    "note": "Alphabet of ~250 (quick) / ~600 (thorough) terms; among literals the order is only required to be asymmetric, converse to > and acyclic (3-subsets of the numeric literals + one literal per other datatype/language); relative IRIs are not read back "
            "through Turtle/SPARQL (they would be resolved against a base).",
    "technique": "exhaustive enumeration of all pairs of a colliding term alphabet against an independent term-identity oracle",
}
