"""Round-trip helpers shared by C03 / C05 / C06 / C12 / C13: term descriptors, graph building, row sets."""
from __future__ import annotations

import itertools
import warnings

from rdflib import Dataset, Graph
from rdflib.graph import DATASET_DEFAULT_GRAPH_ID
from rdflib.namespace import RDF, XSD
from rdflib.term import BNode, Literal, URIRef

from .canon import tkey

EX = "http://ex.org/"
XSD_STRING = str(XSD.string)

SIGMA = ["a", '"', "'", "\\", "\n", "\r", "\t", " ", "é", "\U0001F600", ".", "#"]


def mk(d):
    """Term from a descriptor ["I"|"B"|"L", text, datatype, lang] (or a vocabulary shortcut string)."""
    if d is None:
        return None
    k, text, dt, lang = d
    if k == "I":
        return URIRef(text)
    if k == "B":
        return BNode(text)
    return Literal(text, datatype=None if dt is None else URIRef(dt), lang=lang)


def I(local):  # noqa: E743,N802
    return ["I", EX + local, None, None]


def B(label):  # noqa: N802
    return ["B", label, None, None]


def L(text, dt=None, lang=None):  # noqa: N802
    return ["L", text, dt, lang]


NIL = ["I", str(RDF.nil), None, None]
FIRST = ["I", str(RDF.first), None, None]
REST = ["I", str(RDF.rest), None, None]
TYPE = ["I", str(RDF.type), None, None]


def graph_from(triples, **kw):
    g = Graph(bind_namespaces=kw.pop("bind_namespaces", "none"), **kw)
    for s, p, o in triples:
        g.add((mk(s), mk(p), mk(o)))
    return g


def rows_of(triples):
    """Term-key rows of descriptor triples/quads (graph names None for default)."""
    return {tuple(None if x is None else tkey(mk(x)) for x in t) for t in triples}


def graph_rows(g):
    return {(tkey(s), tkey(p), tkey(o)) for s, p, o in g}


def dataset_from(quads, default_union=False):
    ds = Dataset(default_union=default_union)
    for s, p, o, c in quads:
        if c is None:
            ds.add((mk(s), mk(p), mk(o)))
        else:
            ds.add((mk(s), mk(p), mk(o), mk(c)))
    return ds


_DEFAULT_KEY = tkey(DATASET_DEFAULT_GRAPH_ID)


def dataset_rows(ds):
    out = set()
    with warnings.catch_warnings():
        warnings.simplefilter("ignore")
        for s, p, o, c in ds.quads((None, None, None, None)):
            cid = c.identifier if isinstance(c, Graph) else c
            ck = None if cid is None else tkey(cid)
            if ck == _DEFAULT_KEY:
                ck = None
            out.add((tkey(s), tkey(p), tkey(o), ck))
    return out


def store_snapshot(ds_or_graph):
    """Snapshot of quads and known graph identifiers (for purity checks)."""
    st = ds_or_graph.store
    if isinstance(ds_or_graph, Dataset) or getattr(ds_or_graph, "context_aware", False):
        rows = dataset_rows(ds_or_graph)
        names = frozenset(tkey(c.identifier) for c in st.contexts())
        return (frozenset(rows), names)
    return (frozenset(graph_rows(ds_or_graph)), frozenset())


def hext_norm(rows):
    """HexTuples identifies simple literals with xsd:string (RDF 1.1): compare modulo that."""
    def n(k):
        if isinstance(k, tuple) and k and k[0] == "L" and k[2] is None and k[3] is None:
            return ("L", k[1], XSD_STRING, None)
        return k
    return {tuple(n(x) for x in r) for r in rows}


def strings_upto(n, sigma=SIGMA):
    out = [""]
    for k in range(1, n + 1):
        out += ["".join(p) for p in itertools.product(sigma, repeat=k)]
    return out


def char_class(s):
    for ch, name in (("\r", "cr"), ("\n", "lf"), ("\t", "tab"), ("\\", "backslash"), ('"', "dquote"), ("'", "squote"),
                     ("\U0001F600", "nonbmp"), ("é", "nonascii"), ("#", "hash"), (".", "dot"), (" ", "space")):
        if ch in s:
            return name
    return "empty" if s == "" else "plain"
