"""Shared term vocabulary: JSON-friendly names <-> rdflib terms (DESIGN 3)."""
from __future__ import annotations

from rdflib.namespace import RDF, XSD
from rdflib.term import BNode, Literal, URIRef, Variable

EX = "http://ex.org/"

TERMS = {
    "A": URIRef(EX + "a"),
    "B": URIRef(EX + "b"),
    "C": URIRef(EX + "c"),
    "Z": URIRef(EX + "zz"),
    "P": URIRef(EX + "p"),
    "Q": URIRef(EX + "q"),
    "R": URIRef(EX + "r"),
    "G1": URIRef(EX + "g1"),
    "G2": URIRef(EX + "g2"),
    "G3": URIRef(EX + "g3"),
    "GB": BNode("gb"),
    "b1": BNode("b1"),
    "b2": BNode("b2"),
    "b3": BNode("b3"),
    "b4": BNode("b4"),
    # falsy literals (bool(t) is False on this tree)
    "Lempty": Literal(""),
    "Lempty_en": Literal("", lang="en"),
    "L0": Literal("0", datatype=XSD.integer),
    "Lfalse": Literal("false", datatype=XSD.boolean),
    "L0d": Literal("0.0", datatype=XSD.double),
    "Lempty_s": Literal("", datatype=XSD.string),
    # truthy
    "Lx": Literal("x"),
    "Ly": Literal("y"),
    "L1": Literal("1", datatype=XSD.integer),
    "L2": Literal("2", datatype=XSD.integer),
    "Lx_en": Literal("x", lang="en"),
    "Lx_EN": Literal("x", lang="EN"),
    # the same text in other kinds of term
    "Lx_fr": Literal("x", lang="fr"),
    "Lx_s": Literal("x", datatype=XSD.string),
    "L1p": Literal("1"),
    "La": Literal(EX + "a"),
    "nil": RDF.nil,
    "first": RDF.first,
    "rest": RDF.rest,
    "type": RDF.type,
}

FALSY = ["Lempty", "Lempty_en", "L0", "Lfalse", "L0d", "Lempty_s"]


def T(name):
    """Term for a vocabulary name; None stays None; '?x' is a Variable."""
    if name is None:
        return None
    if isinstance(name, (list, tuple)):
        return tuple(T(n) for n in name)
    if name.startswith("?"):
        return Variable(name[1:])
    return TERMS[name]


def is_falsy(name):
    return name in FALSY


def check_vocab():
    for n in FALSY:
        assert not bool(TERMS[n]), n
