"""Strict reader for W3C N-Triples / N-Quads (RDF 1.1), transcribed production by production from the EBNF.

parse(text, quads=False) -> set of rows of term keys (graph position None for the default graph);
raises SyntaxError with the offending line on anything the grammar does not derive.
"""
from __future__ import annotations

import re

HEX = r"[0-9A-Fa-f]"
UCHAR = r"(?:\\u%s{4}|\\U%s{8})" % (HEX, HEX)
ECHAR = r"\\[tbnrf\"'\\]"
IRIREF = r"<(?:[^\x00-\x20<>\"{}|^`\\]|%s)*>" % UCHAR
STRING = r"\"(?:[^\x22\x5C\x0A\x0D]|%s|%s)*\"" % (ECHAR, UCHAR)
PN_CHARS_BASE = (r"A-Za-z\u00C0-\u00D6\u00D8-\u00F6\u00F8-\u02FF\u0370-\u037D\u037F-\u1FFF\u200C-\u200D\u2070-\u218F\u2C00-\u2FEF"
                 r"\u3001-\uD7FF\uF900-\uFDCF\uFDF0-\uFFFD\U00010000-\U000EFFFF")
PN_CHARS_U = PN_CHARS_BASE + r"_:"
PN_CHARS = PN_CHARS_U + r"\-0-9\u00B7\u0300-\u036F\u203F-\u2040"
BNODE = r"_:[%s0-9](?:[%s.]*[%s])?" % (PN_CHARS_U, PN_CHARS, PN_CHARS)
LANGTAG = r"@[a-zA-Z]+(?:-[a-zA-Z0-9]+)*"
LITERAL = r"%s(?:\^\^%s|%s)?" % (STRING, IRIREF, LANGTAG)
WS = r"[ \t]*"

R_TOKEN = re.compile(r"(?P<iri>%s)|(?P<bnode>%s)|(?P<lit>%s)" % (IRIREF, BNODE, LITERAL))
R_LINE_T = re.compile(r"^%s(?P<s>%s|%s)%s(?P<p>%s)%s(?P<o>%s|%s|%s)%s\.%s(?:#[^\n\r]*)?$" % (WS, IRIREF, BNODE, WS, IRIREF, WS, IRIREF, BNODE, LITERAL, WS, WS))
R_LINE_Q = re.compile(r"^%s(?P<s>%s|%s)%s(?P<p>%s)%s(?P<o>%s|%s|%s)%s(?P<g>%s|%s)?%s\.%s(?:#[^\n\r]*)?$" % (
    WS, IRIREF, BNODE, WS, IRIREF, WS, IRIREF, BNODE, LITERAL, WS, IRIREF, BNODE, WS, WS))
R_BLANK = re.compile(r"^%s(?:#[^\n\r]*)?$" % WS)
R_UCHAR = re.compile(r"\\u(%s{4})|\\U(%s{8})" % (HEX, HEX))
ECHARS = {"t": "\t", "b": "\b", "n": "\n", "r": "\r", "f": "\f", '"': '"', "'": "'", "\\": "\\"}


def _unescape(s, allow_echar):
    out = []
    i = 0
    while i < len(s):
        c = s[i]
        if c == "\\":
            n = s[i + 1]
            if n == "u":
                out.append(chr(int(s[i + 2:i + 6], 16)))
                i += 6
            elif n == "U":
                out.append(chr(int(s[i + 2:i + 10], 16)))
                i += 10
            elif allow_echar and n in ECHARS:
                out.append(ECHARS[n])
                i += 2
            else:
                raise SyntaxError("bad escape")
        else:
            out.append(c)
            i += 1
    return "".join(out)


def _term(tok):
    if tok.startswith("<"):
        iri = _unescape(tok[1:-1], False)
        if not re.match(r"^[A-Za-z][A-Za-z0-9+.\-]*:", iri):
            raise SyntaxError("relative IRI in N-Triples/N-Quads: %r" % iri)  # "IRIs may only be written as absolute IRIs"
        return ("I", iri)
    if tok.startswith("_:"):
        return ("B", tok[2:])
    m = re.match(r"^(%s)(?:\^\^(%s)|(%s))?$" % (STRING, IRIREF, LANGTAG), tok, re.S)
    lex = _unescape(m.group(1)[1:-1], True)
    if m.group(2):
        return ("L", lex, _term(m.group(2))[1], None)
    if m.group(3):
        return ("L", lex, None, m.group(3)[1:].lower())
    return ("L", lex, None, None)


def parse(text, quads=False):
    rows = set()
    if isinstance(text, bytes):
        text = text.decode("utf-8")
    for line in re.split(r"[\r\n]+", text):
        if R_BLANK.match(line):
            continue
        m = (R_LINE_Q if quads else R_LINE_T).match(line)
        if not m:
            raise SyntaxError("not derivable from the %s grammar: %r" % ("N-Quads" if quads else "N-Triples", line))
        row = (_term(m.group("s")), _term(m.group("p")), _term(m.group("o")))
        if quads:
            g = m.group("g")
            row = row + (None if g is None else _term(g),)
        rows.add(row)
    return rows
