"""Independent writers that spell a set of rows (term keys) in N-Triples/N-Quads, Turtle/TriG, RDF/XML and JSON-LD.

Each writer takes a set of deviation flags; the empty set is the plain spelling. A flag that does not
apply to the given graph leaves the document unchanged (the caller counts applicable flags).
Written from the W3C grammars, not from rdflib's serializers.
"""
from __future__ import annotations

import json
import re

RDF = "http://www.w3.org/1999/02/22-rdf-syntax-ns#"
XSD = "http://www.w3.org/2001/XMLSchema#"
EX = "http://ex.org/"

# ---------------------------------------------------------------------------------------------
# shared helpers


def is_b(k):
    return k is not None and k[0] == "B"


def esc_string(s, style, quote='"', long=False):
    """Escape a lexical form for an N-Triples / Turtle string literal."""
    out = []
    for ch in s:
        o = ord(ch)
        if ch == "\\":
            out.append("\\\\")
        elif ch == quote and not long:
            out.append("\\" + quote)
        elif ch == quote and long:
            out.append("\\" + quote)  # always legal inside long strings too
        elif ch == "\n":
            out.append("\n" if (long and style == "raw") else "\\n")
        elif ch == "\r":
            out.append("\r" if (long and style == "raw") else "\\r")
        elif ch == "\t":
            out.append("\t" if style == "raw" else ("\\u0009" if style == "uchar" else "\\t"))
        elif o > 0x7E and style == "uchar":
            out.append("\\u%04X" % o if o <= 0xFFFF else "\\U%08X" % o)
        elif o > 0x7E and style == "Uchar":
            out.append("\\U%08X" % o)
        elif o < 0x20:
            out.append("\\u%04X" % o)
        else:
            out.append(ch)
    return "".join(out)


def iri_text(iri, style="raw"):
    out = []
    for ch in iri:
        o = ord(ch)
        if o <= 0x20 or ch in '<>"{}|^`\\':
            out.append("\\u%04X" % o)
        elif o > 0x7E and style in ("uchar", "Uchar"):
            out.append(("\\u%04X" % o) if (o <= 0xFFFF and style == "uchar") else "\\U%08X" % o)
        else:
            out.append(ch)
    return "<%s>" % "".join(out)


BASEF = EX + "dir/doc"  # a file-like base: its last path segment is not part of what a relative reference is resolved against


def rel_ref(iri):
    """A relative reference (RFC 3986, 4.2 / 5.2) that resolves to iri against BASEF, or None."""
    if not iri.startswith(EX):
        return None
    if iri == BASEF:
        return ""
    if iri.startswith(BASEF + "#") or iri.startswith(BASEF + "?"):
        return iri[len(BASEF):]
    if "/./" in iri or "/../" in iri or iri.endswith("/.") or iri.endswith("/.."):
        return None  # dot segments would be removed on resolution
    if iri.startswith(EX + "dir/"):
        rest = iri[len(EX + "dir/"):]
        if rest == "":
            return "./"
        if ":" in re.split("[/?#]", rest, maxsplit=1)[0] or rest[0] in "?#/":
            return "./" + rest
        return rest
    return "../" + iri[len(EX):]


# ---------------------------------------------------------------------------------------------
# N-Triples / N-Quads

NT_FLAGS = ["uchar", "Uchar", "tabs", "tight", "comments", "blank-lines", "crlf", "bnode-labels", "lang-case", "no-final-eol", "no-space", "cr"]


def bnode_label(k, flags, table):
    if "bnode-labels" not in flags:
        return "_:" + re.sub(r"[^A-Za-z0-9]", "x", k[1]) if not re.match(r"^[A-Za-z0-9][A-Za-z0-9]*$", k[1]) else "_:" + k[1]
    if k not in table:
        shapes = ["0%d" % len(table), "a.b-%d" % len(table), "_%d" % len(table), "x·%d" % len(table)]
        table[k] = "_:" + shapes[len(table) % len(shapes)]
    return table[k]


def nt_term(k, flags, table):
    style = "uchar" if "uchar" in flags else "Uchar" if "Uchar" in flags else "raw-nonascii"
    if k[0] == "I":
        return iri_text(k[1], style)
    if k[0] == "B":
        return bnode_label(k, flags, table)
    s = '"%s"' % esc_string(k[1], "echar" if style == "raw-nonascii" else style)
    if k[3]:
        lang = k[3].upper() if "lang-case" in flags else k[3]
        return s + "@" + lang
    if k[2]:
        return s + "^^" + iri_text(k[2], style)
    return s


def write_nt(rows, flags=frozenset(), quads=False):
    table = {}
    sep = "" if "no-space" in flags else "\t" if "tabs" in flags else " "  # (white space between the terms of a statement is optional)
    lines = []
    if "comments" in flags:
        lines.append("# a comment line")
    for r in sorted(rows, key=repr):
        terms = [nt_term(x, flags, table) for x in r[:3]]
        if quads and r[3] is not None:
            terms.append(nt_term(r[3], flags, table))
        if "tight" in flags:
            line = sep.join(terms) + "."
        else:
            line = sep.join(terms) + sep + "."
        if "comments" in flags:
            line += " # trailing comment"
        lines.append(line)
        if "blank-lines" in flags:
            lines.append("")
            lines.append("   ")
    eol = "\r\n" if "crlf" in flags else "\r" if "cr" in flags else "\n"  # EOL ::= [#xD#xA]+
    doc = eol.join(lines)
    if "no-final-eol" not in flags:
        doc += eol
    return doc


# ---------------------------------------------------------------------------------------------
# Turtle / TriG

TTL_FLAGS = ["single-quote", "long-quote", "long-single-quote", "uchar", "raw", "prefix", "sparql-prefix", "empty-prefix", "base", "sparql-base",
             "relative", "predicate-list", "object-list", "anon", "collection", "numeric", "a", "comments", "tight", "newlines", "bnode-labels",
             "lang-case", "pn-local-escape", "semicolons", "nested-anon", "odd-prefix", "redefine", "dot-relative", "keyword-case", "no-final-eol", "crlf", "cr",
             "file-base", "mid-redeclare", "trig-graph-keyword", "trig-bare-default", "trig-no-final-dot", "trig-split-graph"]

PN_LOCAL_OK = re.compile(r"^[A-Za-z_][A-Za-z0-9_\-]*$")
PN_LOCAL_ESC = set("_~.-!$&'()*+,;=/?#@%")


def ttl_string(lex, flags):
    style = "uchar" if "uchar" in flags else "raw" if "raw" in flags else "echar"
    if "long-quote" in flags:
        return '"""%s"""' % esc_string(lex, style, '"', long=True)
    if "long-single-quote" in flags:
        return "'''%s'''" % esc_string(lex, style, "'", long=True)
    if "single-quote" in flags:
        return "'%s'" % esc_string(lex, style, "'")
    return '"%s"' % esc_string(lex, style, '"')


class TurtleWriter:
    def __init__(self, flags):
        self.flags = flags
        self.table = {}
        self.prefix = None
        if "prefix" in flags or "sparql-prefix" in flags or "pn-local-escape" in flags:
            self.prefix = "ex"
        if "empty-prefix" in flags:
            self.prefix = ""
        if "odd-prefix" in flags and self.prefix != "":
            self.prefix = "e.x-1\u00b7y"  # PN_PREFIX ::= PN_CHARS_BASE ((PN_CHARS | '.')* PN_CHARS)?
        self.ns = EX  # the namespace the prefix currently stands for ("mid-redeclare" changes it half way through the document)
        if "mid-redeclare" in flags and self.prefix is None:
            self.prefix = "ex"
        self.base = EX if ("base" in flags or "sparql-base" in flags or "relative" in flags or "dot-relative" in flags) else None
        if "file-base" in flags:
            self.base = BASEF

    def iri(self, iri, predicate=False):
        if predicate and "a" in self.flags and iri == RDF + "type":
            return "a"
        if self.prefix is not None and iri.startswith(self.ns):
            local = iri[len(self.ns):]
            if PN_LOCAL_OK.match(local):
                return "%s:%s" % (self.prefix, local)
            if "pn-local-escape" in self.flags and local and all(c.isalnum() or c in PN_LOCAL_ESC for c in local) and not local[0] in "-.":
                esc = "".join(("\\" + c) if (c in PN_LOCAL_ESC and c != "_") else c for c in local)
                return "%s:%s" % (self.prefix, esc)
        if self.base == BASEF:
            r = rel_ref(iri)
            return iri_text(iri if r is None else r)
        if self.base and iri.startswith(self.base) and ":" not in iri[len(self.base):].split("/")[0].split("#")[0].split("?")[0]:
            rel = iri[len(self.base):]
            if "dot-relative" in self.flags and rel and rel[0] not in "#?/" and not rel.startswith("."):
                rel = "./" + rel  # RFC 3986 5.2.4: "./" segments are removed on resolution
            return iri_text(rel)
        return iri_text(iri)

    def literal(self, k):
        if "numeric" in self.flags:
            if k[2] == XSD + "integer" and re.match(r"^[+-]?[0-9]+$", k[1]):
                return k[1]
            if k[2] == XSD + "decimal" and re.match(r"^[+-]?[0-9]*\.[0-9]+$", k[1]):
                return k[1]
            if k[2] == XSD + "double" and re.match(r"^[+-]?([0-9]+\.[0-9]*[eE][+-]?[0-9]+|\.[0-9]+[eE][+-]?[0-9]+|[0-9]+[eE][+-]?[0-9]+)$", k[1]):
                return k[1]
            if k[2] == XSD + "boolean" and k[1] in ("true", "false"):
                return k[1]
        s = ttl_string(k[1], self.flags)
        if k[3]:
            return s + "@" + (k[3].upper() if "lang-case" in self.flags else k[3])
        if k[2]:
            return s + "^^" + self.iri(k[2])
        return s

    def term(self, k, predicate=False):
        if k[0] == "I":
            return self.iri(k[1], predicate)
        if k[0] == "B":
            return bnode_label(k, self.flags, self.table)
        return self.literal(k)

    def header(self):
        out = []
        kc = "keyword-case" in self.flags
        if self.base:
            if "redefine" in self.flags and self.base == EX:  # a later @base replaces an earlier one, and may itself be relative to it
                out.append("@base <http://ex.org/sub/dir/> .")
                out.append(("bAsE <../../>" if kc else "BASE <../../>") if "sparql-base" in self.flags else "@base <../../> .")
            else:
                out.append(("bAsE <%s>" if kc else "BASE <%s>") % self.base if "sparql-base" in self.flags else "@base <%s> ." % self.base)
        if self.prefix is not None:
            if "redefine" in self.flags:  # a later declaration of the same prefix replaces the earlier one
                out.append("@prefix %s: <http://wrong.invalid/> ." % self.prefix)
            out.append(self.prefix_decl(EX))
        return out

    def prefix_decl(self, ns):
        kc = "keyword-case" in self.flags
        return ("prefix %s: <%s>" if kc else "PREFIX %s: <%s>") % (self.prefix, ns) if "sparql-prefix" in self.flags else "@prefix %s: <%s> ." % (self.prefix, ns)

    def triples_block(self, triples, protected=frozenset()):
        """triples: set of (s, p, o) keys. Returns list of statement strings.
        protected: blank nodes that must keep their label (they also occur in another graph of the document)."""
        flags = self.flags
        triples = set(triples)
        refs = {}
        for s, p, o in triples:
            if is_b(o):
                refs[o] = refs.get(o, 0) + 1
        subj_of = {}
        for t in triples:
            subj_of.setdefault(t[0], []).append(t)
        inline = {}      # bnode -> text to use in object position
        consumed = set()
        if "collection" in flags:
            # well-formed lists: each cell a bnode referenced exactly once, exactly first+rest
            def cell_ok(c):
                ts = subj_of.get(c, [])
                return is_b(c) and len(ts) == 2 and sorted(t[1][1] for t in ts) == sorted([RDF + "first", RDF + "rest"]) and refs.get(c, 0) == 1
            heads = [c for c in subj_of if cell_ok(c) and not any(t[1] == ("I", RDF + "rest") and t[2] == c for t in triples)]
            for h in heads:
                items, cells, c, ok = [], [], h, True
                seen = set()
                while c != ("I", RDF + "nil"):
                    if not cell_ok(c) or c in seen:
                        ok = False
                        break
                    seen.add(c)
                    ts = subj_of[c]
                    items.append([t[2] for t in ts if t[1][1] == RDF + "first"][0])
                    cells.append(c)
                    c = [t[2] for t in ts if t[1][1] == RDF + "rest"][0]
                if ok and not any(is_b(i) for i in items) and not any(cc in protected for cc in cells):
                    inline[h] = "( %s )" % " ".join(self.term(i) for i in items)
                    for cc in cells:
                        consumed.update(subj_of[cc])
        if "nested-anon" in flags:
            # blank-node trees: a node referenced at most once, not protected, not a list cell already consumed, no cycle
            def tree_text(b, path):
                ts = sorted(subj_of.get(b, []), key=repr)
                parts = []
                for t in ts:
                    o = t[2]
                    if is_b(o):
                        if o in inline and inline[o] is not None:
                            parts.append("%s %s" % (self.term(t[1], True), inline[o]))
                            continue
                        if o in path or refs.get(o, 0) != 1 or o in protected or any(x in consumed for x in subj_of.get(o, [])):
                            return None
                        sub = tree_text(o, path | {o})
                        if sub is None:
                            return None
                        parts.append("%s %s" % (self.term(t[1], True), sub))
                    else:
                        parts.append("%s %s" % (self.term(t[1], True), self.term(o)))
                return "[ %s ]" % " ; ".join(parts) if parts else "[]"

            def mark(b):
                for t in subj_of.get(b, []):
                    consumed.add(t)
                    if is_b(t[2]) and not (t[2] in inline and inline[t[2]] is not None):
                        mark(t[2])

            all_b = {x for t in triples for x in (t[0], t[2]) if is_b(x)}
            roots = [b for b in sorted(all_b, key=repr) if b not in protected and b not in inline and refs.get(b, 0) <= 1
                     and not any(t in consumed for t in subj_of.get(b, []))]
            # outermost first: a root is a candidate not referenced from another candidate's tree
            for b in roots:
                if any(t in consumed for t in subj_of.get(b, [])) or b in inline:
                    continue
                parent = [t[0] for t in triples if t[2] == b]
                if parent and is_b(parent[0]) and parent[0] in roots and parent[0] != b:
                    continue  # will be written inside its parent
                txt = tree_text(b, {b})
                if txt is None:
                    continue
                if refs.get(b, 0) == 1:
                    inline[b] = txt
                    mark(b)
                elif subj_of.get(b):
                    inline[b] = None
                    self._subject_text = getattr(self, "_subject_text", {})
                    self._subject_text[b] = txt
                    mark(b)
        if "anon" in flags:
            for b, ts in subj_of.items():
                if is_b(b) and b not in protected and b not in inline and refs.get(b, 0) <= 1 and not any(is_b(t[2]) for t in ts) and not any(t in consumed for t in ts) \
                        and not any(t[2] == b for t in ts):
                    body = " ; ".join("%s %s" % (self.term(t[1], True), self.term(t[2])) for t in sorted(ts, key=repr))
                    if refs.get(b, 0) == 1:
                        inline[b] = "[ %s ]" % body
                        consumed.update(ts)
                    else:
                        inline[b] = None  # unreferenced: written as subject "[ ... ] ."
                        consumed.update(ts)
        stmts = []
        for b, txt in inline.items():
            if txt is None and b in getattr(self, "_subject_text", {}):
                stmts.append("%s ." % self._subject_text[b])
            elif txt is None:
                ts = subj_of[b]
                stmts.append("[ %s ] ." % " ; ".join("%s %s" % (self.term(t[1], True), self.term(t[2])) for t in sorted(ts, key=repr)))

        def obj(o):
            if o in inline and inline[o] is not None:
                return inline[o]
            if o == ("I", RDF + "nil") and "collection" in flags:
                return "( )" if "tight" not in flags else "()"
            return self.term(o)

        rest = sorted(triples - consumed, key=repr)
        sep = "" if "tight" in flags else " "
        if "predicate-list" in flags or "object-list" in flags or "semicolons" in flags:
            by_s = {}
            for t in rest:
                by_s.setdefault(t[0], []).append(t)
            for s, ts in by_s.items():
                by_p = {}
                for t in ts:
                    by_p.setdefault(t[1], []).append(t[2])
                parts = []
                for p, objs in by_p.items():
                    if "object-list" in flags:
                        parts.append("%s %s" % (self.term(p, True), " , ".join(obj(o) for o in objs)))
                    else:
                        parts += ["%s %s" % (self.term(p, True), obj(o)) for o in objs]
                if "semicolons" in flags:  # predicateObjectList ::= verb objectList (';' (verb objectList)?)*
                    stmts.append("%s %s%s." % (self.term(s), " ;; ".join(parts) + " ; ;", sep))
                elif "predicate-list" in flags:
                    stmts.append("%s %s%s." % (self.term(s), " ;\n    ".join(parts) + (" ;" if "newlines" in flags else ""), sep))
                else:
                    for part in parts:
                        stmts.append("%s %s%s." % (self.term(s), part, sep))
        else:
            for s, p, o in rest:
                if "newlines" in flags:
                    stmts.append("%s\n\t%s\n\t\t%s\n." % (self.term(s), self.term(p, True), obj(o)))
                else:
                    stmts.append("%s %s %s%s." % (self.term(s), self.term(p, True), obj(o), sep))
        if "comments" in flags:
            stmts = ["# comment with <iri> and \"quotes\"\n" + st + " # trailing" for st in stmts]
        return stmts


def _finish(lines, rows, flags):
    doc = "\n".join(lines)
    if "no-final-eol" not in flags:
        doc += "\n"
    if "crlf" in flags and not any(x is not None and x[0] == "L" and "\n" in x[1] for r in rows for x in r):
        doc = doc.replace("\n", "\r\n")  # (only where no string literal can contain a raw line feed)
    elif "cr" in flags and not any(x is not None and x[0] == "L" and "\n" in x[1] for r in rows for x in r):
        doc = doc.replace("\n", "\r")  # a bare carriage return is white space, and ends a comment, like a line feed
    return doc


NS2 = EX + "dir/"


def write_turtle(rows, flags=frozenset()):
    w = TurtleWriter(flags)
    triples = {r[:3] for r in rows}
    if "mid-redeclare" in flags:
        # the prefix is declared, used, declared again for another namespace and used again (the same prefixed name then means another IRI)
        def in_ns2(x):
            return x[0] == "I" and x[1].startswith(NS2) and PN_LOCAL_OK.match(x[1][len(NS2):])
        part2 = {t for t in triples if any(in_ns2(x) for x in t)}
        part1 = triples - part2
        if part1 and part2:
            shared = {x for t in part1 for x in (t[0], t[2]) if is_b(x)} & {x for t in part2 for x in (t[0], t[2]) if is_b(x)}
            body = w.triples_block(part1, frozenset(shared))
            w.ns = NS2
            body += [w.prefix_decl(NS2)] + w.triples_block(part2, frozenset(shared))
            w.ns = EX
            return _finish(w.header() + body, rows, flags)
    body = w.triples_block(triples)
    return _finish(w.header() + body, rows, flags)


def write_trig(rows, flags=frozenset()):
    w = TurtleWriter(flags)
    out = []
    by_g = {}
    for r in rows:
        by_g.setdefault(r[3], set()).add(r[:3])
    occurs = {}
    for r in rows:
        for x in r[:3]:
            if is_b(x):
                occurs.setdefault(x, set()).add(r[3])
    for x in by_g:
        if is_b(x):
            occurs.setdefault(x, set()).add("as-graph-name")
    protected = frozenset(b for b, gs in occurs.items() if len(gs) > 1)
    def strip_dot(block):
        # triplesBlock ::= triples ('.' triplesBlock?)?  -- the last '.' inside braces is optional
        if "trig-no-final-dot" in flags and block and "comments" not in flags and block[-1].endswith("."):
            return block[:-1] + [block[-1][:-1]]
        return block

    for g in sorted(by_g, key=repr):
        parts = [by_g[g]]
        if "trig-split-graph" in flags and len(by_g[g]) > 1 and not any(is_b(x) and x not in protected for t in by_g[g] for x in t):
            ts = sorted(by_g[g], key=repr)
            parts = [set(ts[:1]), set(ts[1:])]  # the same graph may be written as several blocks
        for part in parts:
            block = strip_dot(w.triples_block(part, protected))
            if g is None:
                if "trig-bare-default" in flags:
                    out += w.triples_block(part, protected)
                else:
                    out.append("{ %s\n}" % "\n".join(block))
            else:
                kw = ("graph " if "keyword-case" in flags else "GRAPH ") if "trig-graph-keyword" in flags else ""
                out.append("%s%s { %s\n}" % (kw, w.term(g), "\n".join(block)))
    return _finish(w.header() + out, rows, flags)


# ---------------------------------------------------------------------------------------------
# RDF/XML

XML_FLAGS = ["nodeid-all", "nested", "property-attributes", "typed-node", "parse-resource", "parse-collection", "lang-inherit", "char-refs", "cdata",
             "default-ns", "xml-base", "rdf-id", "single-description", "rdf-li", "entity-decl", "no-xml-decl", "xml-comments", "indent", "no-rdf-root",
             "single-quote-decls", "xml-file-base", "parse-literal", "parse-literal-hoisted"]


def xml_escape(s, flags, attr=False):
    out = []
    for ch in s:
        if ch == "&":
            out.append("&amp;")
        elif ch == "<":
            out.append("&lt;")
        elif ch == ">":
            out.append("&gt;")
        elif ch == '"' and attr:
            out.append("&quot;")
        elif ch in "\r":
            out.append("&#13;")
        elif ch in "\n\t" and attr:
            out.append("&#%d;" % ord(ch))
        elif "char-refs" in flags and (ord(ch) > 0x7E):
            out.append("&#x%X;" % ord(ch))
        else:
            out.append(ch)
    return "".join(out)


def split_pred(iri):
    m = re.match(r"^(.*[/#:])([A-Za-z_][A-Za-z0-9_.\-]*)$", iri)
    return (m.group(1), m.group(2)) if m else None


def xml_expressible(rows):
    for r in rows:
        if r[1][0] != "I" or not split_pred(r[1][1]):
            return False
        for x in r[:3]:
            if x[0] == "L":
                for ch in x[1]:
                    o = ord(ch)
                    if not (o in (9, 10, 13) or 0x20 <= o <= 0xD7FF or 0xE000 <= o <= 0xFFFD or 0x10000 <= o <= 0x10FFFF):
                        return False
            if x[0] == "B" and not re.match(r"^[A-Za-z_][A-Za-z0-9_.\-]*$", x[1]):
                return False
    return True


def write_rdfxml(rows, flags=frozenset()):
    triples = sorted({r[:3] for r in rows}, key=repr)
    ns = {RDF: "rdf"}
    default_ns = None

    def qname(iri, attr=False):
        nonlocal default_ns
        n, local = split_pred(iri)
        if "default-ns" in flags and n == EX and not attr:  # (an unprefixed attribute is in no namespace)
            default_ns = EX
            return local
        if n not in ns:
            ns[n] = "ns%d" % len(ns)
        return "%s:%s" % (ns[n], local)

    base = EX if ("xml-base" in flags or "rdf-id" in flags) else None
    if "xml-file-base" in flags and base is None:
        base = BASEF

    def about(k):
        if k[0] == "B":
            return 'rdf:nodeID="%s"' % k[1]
        iri = k[1]
        if "rdf-id" in flags and base and iri.startswith(base + "#") and re.match(r"^[A-Za-z_][A-Za-z0-9_.\-]*$", iri[len(base) + 1:]):
            return 'rdf:ID="%s"' % iri[len(base) + 1:]
        if base == BASEF and rel_ref(iri) is not None:
            return 'rdf:about="%s"' % xml_escape(rel_ref(iri), flags, True)
        if "xml-base" in flags and iri.startswith(base) and ":" not in iri[len(base):].split("/")[0].split("#")[0].split("?")[0]:
            return 'rdf:about="%s"' % xml_escape(iri[len(base):], flags, True)
        return 'rdf:about="%s"' % xml_escape(iri, flags, True)

    def resource(k):
        if k[0] == "B":
            return 'rdf:nodeID="%s"' % k[1]
        iri = k[1]
        if base == BASEF and rel_ref(iri) is not None:
            return 'rdf:resource="%s"' % xml_escape(rel_ref(iri), flags, True)
        if "xml-base" in flags and iri.startswith(base) and ":" not in iri[len(base):].split("/")[0].split("#")[0].split("?")[0]:
            return 'rdf:resource="%s"' % xml_escape(iri[len(base):], flags, True)
        return 'rdf:resource="%s"' % xml_escape(iri, flags, True)

    subj_of = {}
    refs = {}
    for t in triples:
        subj_of.setdefault(t[0], []).append(t)
        if t[2][0] != "L":
            refs[t[2]] = refs.get(t[2], 0) + 1
    written = set()
    used_ids = set()

    def lit_elem(p, o, inherited_lang=None):
        return lit_elem_q(qname(p[1]), o, inherited_lang)

    def lit_elem_q(q, o, inherited_lang=None):
        if o[2] == RDF + "XMLLiteral" and ("parse-literal" in flags or "parse-literal-hoisted" in flags):
            # the lexical form of an rdf:XMLLiteral written as XML content (it is exclusive canonical XML: each top-level element declares the
            # namespaces it uses); "hoisted": those declarations are made once on the root element instead
            content = o[1]
            if "parse-literal-hoisted" in flags and ' xmlns="' not in content:
                for m in set(re.findall(r' xmlns:([A-Za-z]+)="([^"]*)"', content)):
                    if m[1] not in ns or ns[m[1]] == m[0]:
                        ns[m[1]] = m[0]
                        content = content.replace(' xmlns:%s="%s"' % m, "")
            return '<%s rdf:parseType="Literal">%s</%s>' % (q, content, q)
        attrs = ""
        if o[3] and o[3] != inherited_lang:
            attrs += ' xml:lang="%s"' % o[3]
        elif not o[3] and inherited_lang and not o[2]:
            attrs += ' xml:lang=""'
        if o[2]:
            attrs += ' rdf:datatype="%s"' % xml_escape(o[2], flags, True)
        if "cdata" in flags and "]]>" not in o[1] and "\r" not in o[1] and o[1]:
            return "<%s%s><![CDATA[%s]]></%s>" % (q, attrs, o[1], q)
        return "<%s%s>%s</%s>" % (q, attrs, xml_escape(o[1], flags), q)

    def node(s, depth=0, nested_from=None):
        """Node element for subject s with all its (unwritten) properties."""
        ts = [t for t in subj_of.get(s, []) if t not in written]
        for t in ts:
            written.add(t)
        tag = "rdf:Description"
        if "typed-node" in flags:
            for t in ts:
                if t[1][1] == RDF + "type" and t[2][0] == "I" and split_pred(t[2][1]):
                    tag = qname(t[2][1])
                    ts = [x for x in ts if x is not t]
                    break
        lang = None
        if "lang-inherit" in flags:
            langs = {t[2][3] for t in ts if t[2][0] == "L" and t[2][3]}
            if len(langs) == 1:
                lang = list(langs)[0]
        attrs = ""
        if s[0] == "B" and nested_from is not None and refs.get(s, 0) == 1 and "nodeid-all" not in flags:
            attrs = ""
        else:
            attrs = " " + about(s)
        if lang:
            attrs += ' xml:lang="%s"' % lang
        props = []
        pattrs = ""
        seen_pa = set()
        li = {}
        if "rdf-li" in flags:
            # rdf:li stands for rdf:_1, rdf:_2, ... in document order within one node element
            ns_ = sorted(int(t[1][1][len(RDF) + 1:]) for t in ts if re.match(r"^_[1-9][0-9]*$", t[1][1][len(RDF):]) and t[1][1].startswith(RDF))
            if ns_ and ns_ == list(range(1, len(ns_) + 1)):
                mem = sorted((t for t in ts if t[1][1].startswith(RDF + "_")), key=lambda t: int(t[1][1][len(RDF) + 1:]))
                ts = [t for t in ts if t not in mem] + mem
                li = {t: True for t in mem}
        for t in ts:
            p, o = t[1], t[2]
            if t in li and o[0] == "L":
                props.append(lit_elem_q("rdf:li", o, lang))
                continue
            if t in li:
                props.append("<rdf:li %s/>" % resource(o))
                continue
            if "property-attributes" in flags and o[0] == "L" and not o[2] and (o[3] == lang or (not o[3] and not lang)) and p not in seen_pa \
                    and sum(1 for x in ts if x[1] == p) == 1 and p[1] != RDF + "type":
                seen_pa.add(p)
                pattrs += ' %s="%s"' % (qname(p[1], attr=True), xml_escape(o[1], flags, True))
                continue
            if o[0] == "L":
                props.append(lit_elem(p, o, lang))
                continue
            q = qname(p[1])
            if "parse-collection" in flags and o[0] == "B" and is_list(o):
                items, cells = list_items(o)
                if all(i[0] == "I" for i in items) and not any(x in written for c in cells for x in subj_of.get(c, [])):
                    for c in cells:
                        for x in subj_of.get(c, []):
                            written.add(x)
                    props.append('<%s rdf:parseType="Collection">%s</%s>' % (q, "".join('<rdf:Description %s/>' % about(i) for i in items), q))
                    continue
            can_nest = o[0] == "B" and refs.get(o, 0) == 1 and o in subj_of and o != s and depth < 3 and not any(x in written for x in subj_of[o])
            if "parse-resource" in flags and can_nest and not any(x[1][1] == RDF + "type" for x in subj_of[o]):
                inner_ts = subj_of[o]
                for x in inner_ts:
                    written.add(x)
                inner = []
                for x in inner_ts:
                    if x[2][0] == "L":
                        inner.append(lit_elem(x[1], x[2]))
                    else:
                        inner.append("<%s %s/>" % (qname(x[1][1]), resource(x[2])))
                props.append('<%s rdf:parseType="Resource">%s</%s>' % (q, "".join(inner), q))
                continue
            if "nested" in flags and (can_nest or (o[0] == "I" and o in subj_of and o != s and depth < 2 and not all(x in written for x in subj_of[o]))):
                props.append("<%s>%s</%s>" % (q, node(o, depth + 1, nested_from=s), q))
                continue
            props.append("<%s %s/>" % (q, resource(o)))
        glue = ""
        if "indent" in flags:
            glue = "\n    "  # white space between property elements is not content
        if "xml-comments" in flags:
            glue += "<!-- between <properties> & \"such\" -->"
        if glue and props:
            return "<%s%s%s>%s%s%s</%s>" % (tag, attrs, pattrs, glue, glue.join(props), glue, tag)
        return "<%s%s%s>%s</%s>" % (tag, attrs, pattrs, "".join(props), tag)

    def is_list(c):
        seen = set()
        while c != ("I", RDF + "nil"):
            ts = subj_of.get(c, [])
            if c in seen or c[0] != "B" or refs.get(c, 0) != 1 or len(ts) != 2 or sorted(t[1][1] for t in ts) != sorted([RDF + "first", RDF + "rest"]):
                return False
            seen.add(c)
            c = [t[2] for t in ts if t[1][1] == RDF + "rest"][0]
        return bool(seen)

    def list_items(c):
        items, cells = [], []
        while c != ("I", RDF + "nil"):
            ts = subj_of[c]
            items.append([t[2] for t in ts if t[1][1] == RDF + "first"][0])
            cells.append(c)
            c = [t[2] for t in ts if t[1][1] == RDF + "rest"][0]
        return items, cells

    body = []
    # subjects that are not (only) nested first
    order = sorted(subj_of, key=lambda s: (any(t[1][1] in (RDF + "first", RDF + "rest") for t in subj_of[s]), refs.get(s, 0), repr(s)))
    if "single-description" in flags:
        for s in order:
            for t in list(subj_of[s]):
                if t in written:
                    continue
                written.add(t)
                if t[2][0] == "L":
                    body.append("<rdf:Description %s>%s</rdf:Description>" % (about(s), lit_elem(t[1], t[2])))
                else:
                    body.append("<rdf:Description %s><%s %s/></rdf:Description>" % (about(s), qname(t[1][1]), resource(t[2])))
    else:
        for s in order:
            if any(t not in written for t in subj_of[s]):
                body.append(node(s))
    decls = "".join(' xmlns:%s="%s"' % (p, xml_escape(n, flags, True)) for n, p in ns.items())
    if default_ns:
        decls += ' xmlns="%s"' % default_ns
    if base:
        decls += ' xml:base="%s"' % base
    if "single-quote-decls" in flags:
        decls = re.sub(r'="([^"\']*)"', r"='\1'", decls)
    head = "" if "no-xml-decl" in flags else '<?xml version="1.0" encoding="utf-8"?>\n'
    if "entity-decl" in flags:
        head += '<!DOCTYPE rdf:RDF [ <!ENTITY ex "%s"> ]>\n' % EX
        body = [b.replace('="%s' % EX, '="&ex;') for b in body]
    if "xml-comments" in flags:
        head += "<!-- a comment before the root -->\n<?some-pi with data?>\n"
        body = ["<!-- comment -->" + b for b in body]
    if "no-rdf-root" in flags and len(body) == 1 and "entity-decl" not in flags and "xml-comments" not in flags:
        # "rdf:RDF is optional if there is only one top-level node element" (RDF/XML 2.6 / grammar 7.2.8 doc)
        m = re.match(r"^<([^\s>/]+)", body[0])
        return head + body[0][:m.end()] + decls + body[0][m.end():] + "\n"
    return head + "<rdf:RDF%s>\n%s\n</rdf:RDF>\n" % (decls, "\n".join(body))


# ---------------------------------------------------------------------------------------------
# JSON-LD

JSONLD_FLAGS = ["context-prefix", "vocab", "base", "type-coercion", "language-default", "list", "nested", "graph-wrapper", "native", "type-keyword", "set-array",
                "alias", "context-array", "null-noise", "unmapped-keys", "reverse", "value-objects", "container-list", "datatype-coercion", "anonymous", "file-base", "embedded-alias"]
ALIASES = {"@id": "id", "@type": "type", "@value": "value", "@language": "lang", "@graph": "graph", "@list": "list", "@reverse": "rev"}


def write_jsonld(rows, flags=frozenset(), dataset=False):
    if "embedded-alias" in flags:
        flags = frozenset(flags) | {"vocab"}
    ctx = {}
    if "context-prefix" in flags:
        ctx["ex"] = EX
    if "vocab" in flags:
        ctx["@vocab"] = EX
    if "base" in flags:
        ctx["@base"] = EX
    if "file-base" in flags and "base" not in flags:
        ctx["@base"] = BASEF
    if "language-default" in flags:
        ctx["@language"] = "en"
    coerced = {}
    literal_valued = set()

    def compact_iri(iri, vocab=True):
        if "vocab" in flags and vocab and iri.startswith(EX) and re.match(r"^[A-Za-z_][A-Za-z0-9_]*$", iri[len(EX):]):
            return iri[len(EX):]
        if "context-prefix" in flags and iri.startswith(EX) and re.match(r"^[A-Za-z_][A-Za-z0-9_\-]*$", iri[len(EX):]):
            return "ex:" + iri[len(EX):]
        return iri

    def node_id(k):
        if k[0] == "B":
            return "_:" + k[1]
        iri = k[1]
        if ctx.get("@base") == BASEF and rel_ref(iri) is not None:
            return rel_ref(iri)
        if "base" in flags and iri.startswith(EX) and iri != EX and ":" not in iri[len(EX):]:
            return iri[len(EX):]
        if "context-prefix" in flags:
            return compact_iri(iri, vocab=False)
        return iri

    def value(o, pkey):
        if o[0] != "L":
            if pkey in coerced:
                return node_id(o)
            return {"@id": node_id(o)}
        lex, dt, lang = o[1], o[2], o[3]
        if "native" in flags:
            if dt == XSD + "integer" and re.match(r"^-?(0|[1-9][0-9]*)$", lex) and abs(int(lex)) < 2 ** 53:
                return int(lex)
            if dt == XSD + "boolean" and lex in ("true", "false"):
                return lex == "true"
        if lang:
            if "language-default" in flags and lang == "en":
                return lex
            return {"@value": lex, "@language": lang}
        if dt and dt != XSD + "string":
            return {"@value": lex, "@type": compact_iri(dt)}
        if dt == XSD + "string":
            return {"@value": lex, "@type": XSD + "string"} if "language-default" in flags else {"@value": lex, "@type": XSD + "string"}
        if "language-default" in flags or "value-objects" in flags:
            return {"@value": lex}
        return lex

    referenced = {x for r in rows for x in (r[2], r[3] if len(r) > 3 else None) if x is not None and x[0] == "B"}
    _subject_graphs = {}
    for r in rows:
        if r[0][0] == "B":
            _subject_graphs.setdefault(r[0], set()).add(r[3] if len(r) > 3 else None)
    referenced |= {b for b, gs in _subject_graphs.items() if len(gs) > 1}  # the same node described in two graphs needs its label
    dt_terms = {}

    def graph_nodes(triples):
        triples = sorted(triples, key=repr)
        subj_of = {}
        refs = {}
        for t in triples:
            subj_of.setdefault(t[0], []).append(t)
            if t[2][0] == "B":
                refs[t[2]] = refs.get(t[2], 0) + 1
        consumed = set()

        def is_list(c):
            seen = set()
            while c != ("I", RDF + "nil"):
                ts = subj_of.get(c, [])
                if c in seen or c[0] != "B" or refs.get(c, 0) != 1 or len(ts) != 2 or sorted(t[1][1] for t in ts) != sorted([RDF + "first", RDF + "rest"]):
                    return False
                seen.add(c)
                c = [t[2] for t in ts if t[1][1] == RDF + "rest"][0]
            return bool(seen)

        def build(s, depth=0):
            node = {"@id": node_id(s)}
            if "anonymous" in flags and s[0] == "B" and s not in referenced:
                node = {}  # a node object without @id denotes a fresh blank node
            if "null-noise" in flags:
                node["http://ex.org/ignored"] = None
            if "unmapped-keys" in flags and "vocab" not in flags:
                node["not-an-iri-or-term"] = "dropped: the key does not expand to an absolute IRI"
            for t in subj_of.get(s, []):
                if t in consumed:
                    continue
                consumed.add(t)
                p, o = t[1], t[2]
                if p[1] == RDF + "type" and o[0] == "I" and "type-keyword" in flags:
                    node.setdefault("@type", []).append(compact_iri(o[1]))
                    continue
                pkey = compact_iri(p[1])
                if "list" in flags and o[0] == "B" and is_list(o):
                    items, cells, c = [], [], o
                    while c != ("I", RDF + "nil"):
                        ts = subj_of[c]
                        cells += ts
                        items.append([x[2] for x in ts if x[1][1] == RDF + "first"][0])
                        c = [x[2] for x in ts if x[1][1] == RDF + "rest"][0]
                    if not any(i[0] == "B" and i in subj_of for i in items) and not any(x in consumed for x in cells):
                        consumed.update(cells)
                        if "container-list" in flags and sum(1 for x in subj_of[s] if x[1] == p) == 1:
                            term = "lst_" + re.sub(r"[^A-Za-z0-9]", "_", p[1])[-10:]
                            ctx[term] = {"@id": p[1], "@container": "@list"}
                            node[term] = [value(i, None) for i in items]  # (kept an array: the container makes it one list)
                            continue
                        v = {"@list": [value(i, None) for i in items]}
                        node.setdefault(pkey, []).append(v)
                        continue
                if "type-coercion" in flags and o[0] != "L" and p not in literal_valued and \
                        (pkey != p[1] or ("vocab" not in flags and "context-prefix" not in flags)):
                    term = pkey if pkey != p[1] else "term_" + re.sub(r"[^A-Za-z0-9]", "_", p[1])[-12:]
                    ctx[term] = {"@id": p[1], "@type": "@id"}
                    coerced[term] = True
                    node.setdefault(term, []).append(node_id(o))
                    continue
                if "datatype-coercion" in flags and o[0] == "L" and o[2] and o[2] != XSD + "string" and not o[3]:
                    term = dt_terms.setdefault((p[1], o[2]), "dt%d" % len(dt_terms))
                    ctx[term] = {"@id": p[1], "@type": o[2]}
                    node.setdefault(term, []).append(o[1])
                    continue
                if "reverse" in flags and o[0] == "I" and p[1] != RDF + "type" and depth == 0 and not (s[0] == "B" and "anonymous" in flags):
                    reverse_nodes.append({"@id": node_id(o), "@reverse": {pkey: [{"@id": node_id(s)}]}})
                    continue
                if "nested" in flags and o[0] == "B" and refs.get(o, 0) == 1 and o in subj_of and o != s and depth < 3 and not any(x in consumed for x in subj_of[o]):
                    node.setdefault(pkey, []).append(build(o, depth + 1))
                    continue
                node.setdefault(pkey, []).append(value(o, pkey))
            if "set-array" not in flags:
                for k2, v in list(node.items()):
                    if isinstance(v, list) and len(v) == 1 and k2 != "@type" and not (isinstance(ctx.get(k2), dict) and ctx[k2].get("@container") == "@list"):
                        node[k2] = v[0]
            return node

        out = []
        reverse_nodes = []
        for s in sorted(subj_of, key=lambda s: (refs.get(s, 0), repr(s))):
            if any(t not in consumed for t in subj_of[s]):
                n = build(s)
                if set(n) - {"@id", "http://ex.org/ignored", "not-an-iri-or-term"} or s not in referenced:
                    out.append(n)
        return out + reverse_nodes

    by_g = {}
    for r in rows:
        by_g.setdefault(r[3] if len(r) > 3 else None, set()).add(r[:3])
    literal_valued.update(r[1] for r in rows if r[2][0] == "L")  # the context is document-wide: so is the decision to coerce a term
    docs = []
    for g in sorted(by_g, key=repr):
        nodes = graph_nodes(by_g[g])
        if g is None:
            docs += nodes
        else:
            docs.append({"@id": node_id(g), "@graph": nodes})
    if "embedded-alias" in flags and "alias" not in flags:
        # the document-wide context aliases @id as "uri"; ONE node object carries its own context with a second alias for @id, whose name is a
        # plain (vocabulary-relative) property name of a LATER node object: inside the first node it is the keyword, afterwards a property again
        def rename_id(x):
            if isinstance(x, dict):
                return {("uri" if k == "@id" else k): rename_id(v) for k, v in x.items()}
            if isinstance(x, list):
                return [rename_id(v) for v in x]
            return x
        renamed = rename_id(docs)
        plain = lambda k: isinstance(k, str) and re.match(r"^[A-Za-z_][A-Za-z0-9_]*$", k) and k != "uri"  # noqa: E731
        done = False
        for i, n1 in enumerate(renamed):
            if not isinstance(n1, dict) or "uri" not in n1 or "@graph" in n1:
                continue
            inside = json.dumps(n1)
            later = [k for n2 in renamed[i + 1:] if isinstance(n2, dict) and "@graph" not in n2 for k in n2 if plain(k) and ('"%s"' % k) not in inside]
            if later:
                name = later[0]
                n1 = dict(n1)
                n1[name] = n1.pop("uri")
                n1["@context"] = {name: "@id"}
                renamed[i] = n1
                done = True
                break
        if done:
            docs = renamed
            ctx["uri"] = "@id"
    if "alias" in flags:
        def rename(x):
            if isinstance(x, dict):
                return {ALIASES.get(k, k): rename(v) for k, v in x.items()}
            if isinstance(x, list):
                return [rename(v) for v in x]
            return x
        docs = rename(docs)
        for k, a in ALIASES.items():
            ctx[a] = k
    if ctx or "graph-wrapper" in flags:
        doc = {ALIASES["@graph"] if "alias" in flags else "@graph": docs}
        if ctx:
            doc["@context"] = ctx
            if "context-array" in flags:  # an array of contexts is processed in order
                ks = sorted(ctx)
                doc["@context"] = [{k: ctx[k] for k in ks[:len(ks) // 2]}, {k: ctx[k] for k in ks[len(ks) // 2:]}]
    else:
        doc = docs
    return json.dumps(doc, ensure_ascii=("native" in flags), indent=1)
