"""Reference semantics of SPARQL property paths as relation algebra over a finite graph.

A path is a nested tuple:
  ("iri", name) | ("inv", e) | ("seq", e1, e2) | ("alt", e1, e2) | ("star", e) | ("plus", e) | ("opt", e)
  | ("neg", [fwd names], [inv names])
Relations are frozensets of (x, y) pairs over hashable node keys.
"""
from __future__ import annotations


def nodes_of(triples):
    ns = set()
    for s, p, o in triples:
        ns.add(s)
        ns.add(o)
    return ns


def compose(r1, r2):
    by = {}
    for y, z in r2:
        by.setdefault(y, []).append(z)
    return frozenset((x, z) for x, y in r1 for z in by.get(y, ()))


def tclosure(r):
    succ = {}
    for x, y in r:
        succ.setdefault(x, set()).add(y)
    out = set()
    for start in succ:
        seen = set()
        stack = list(succ[start])
        while stack:
            n = stack.pop()
            if n in seen:
                continue
            seen.add(n)
            stack.extend(succ.get(n, ()))
        for n in seen:
            out.add((start, n))
    return frozenset(out)


def rel(path, triples, nodes=None, memo=None):
    """Relation denoted by path over the graph's own nodes (zero-length pairs on graph nodes only)."""
    if nodes is None:
        nodes = nodes_of(triples)
    if memo is None:
        memo = {}
    k = repr(path)
    if k in memo:
        return memo[k]
    t = path[0]
    if t == "iri":
        r = frozenset((s, o) for s, p, o in triples if p == path[1])
    elif t == "inv":
        r = frozenset((y, x) for x, y in rel(path[1], triples, nodes, memo))
    elif t == "seq":
        r = compose(rel(path[1], triples, nodes, memo), rel(path[2], triples, nodes, memo))
    elif t == "alt":
        r = rel(path[1], triples, nodes, memo) | rel(path[2], triples, nodes, memo)
    elif t == "plus":
        r = tclosure(rel(path[1], triples, nodes, memo))
    elif t == "star":
        r = tclosure(rel(path[1], triples, nodes, memo)) | frozenset((n, n) for n in nodes)
    elif t == "opt":
        r = rel(path[1], triples, nodes, memo) | frozenset((n, n) for n in nodes)
    elif t == "neg":
        fwd, inv = path[1], path[2]
        out = set()
        if fwd or not inv:
            out |= {(s, o) for s, p, o in triples if p not in fwd}
        if inv:
            out |= {(o, s) for s, p, o in triples if p not in inv}
        r = frozenset(out)
    else:
        raise ValueError(path)
    memo[k] = r
    return r


def nullable(path):
    t = path[0]
    if t in ("iri", "neg"):
        return False
    if t in ("star", "opt"):
        return True
    if t in ("inv", "plus"):
        return nullable(path[1])
    if t == "seq":
        return nullable(path[1]) and nullable(path[2])
    if t == "alt":
        return nullable(path[1]) or nullable(path[2])
    raise ValueError(path)


def answer(path, triples, s=None, o=None, nodes=None, memo=None):
    """Set of (start, end) pairs for the path with the given bound ends (None = unbound)."""
    if nodes is None:
        nodes = nodes_of(triples)
    r = rel(path, triples, nodes, memo)
    out = {(x, y) for x, y in r if (s is None or x == s) and (o is None or y == o)}
    if nullable(path):
        # a zero-length match on a given term holds even if the term does not occur in the graph
        if s is not None and s not in nodes and (o is None or o == s):
            out.add((s, s))
        elif s is None and o is not None and o not in nodes:
            out.add((o, o))
    return out
