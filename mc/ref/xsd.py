"""Independent reference for XSD 1.1 lexical spaces and lexical-to-value maps (Part 2: Datatypes).

valid(dt, lexical) -> bool         lexical validity after whiteSpace=collapse (regex + range / calendar rules)
value(dt, lexical) -> python value or UNREP (valid but not representable by the Python type rdflib maps to)

Only the datatypes rdflib recognises (rdflib.term.XSDToPython) are covered. Transcribed from the
lexical-space productions of XSD 1.1 sections 3.3 / 3.4, not from rdflib.
"""
from __future__ import annotations

import base64
import re
from datetime import date, datetime, time, timedelta, timezone
from decimal import Decimal

XSD = "http://www.w3.org/2001/XMLSchema#"
UNREP = object()

INT_RANGES = {
    "integer": (None, None), "long": (-2**63, 2**63 - 1), "int": (-2**31, 2**31 - 1), "short": (-2**15, 2**15 - 1),
    "byte": (-128, 127), "nonNegativeInteger": (0, None), "positiveInteger": (1, None), "nonPositiveInteger": (None, 0),
    "negativeInteger": (None, -1), "unsignedLong": (0, 2**64 - 1), "unsignedInt": (0, 2**32 - 1), "unsignedShort": (0, 2**16 - 1),
    "unsignedByte": (0, 255),
}
STRINGY = {"string", "normalizedString", "token", "language", "anyURI"}

R_INT = re.compile(r"[+-]?[0-9]+\Z")
R_DEC = re.compile(r"[+-]?([0-9]+(\.[0-9]*)?|\.[0-9]+)\Z")
R_DBL = re.compile(r"([+-]?([0-9]+(\.[0-9]*)?|\.[0-9]+)([eE][+-]?[0-9]+)?|[+-]?INF|NaN)\Z")
R_TZ = r"(Z|[+-](?:(?:0[0-9]|1[0-3]):[0-5][0-9]|14:00))?"
R_YEAR = r"(-?(?:[1-9][0-9]{3,}|0[0-9]{3}))"
R_DATE = re.compile(R_YEAR + r"-(0[1-9]|1[0-2])-(0[1-9]|[12][0-9]|3[01])" + R_TZ + r"\Z")
R_TIMEPART = r"(?:([01][0-9]|2[0-3]):([0-5][0-9]):([0-5][0-9])(\.[0-9]+)?|(24):(00):(00)(\.0+)?)"
R_TIME = re.compile(R_TIMEPART + R_TZ + r"\Z")
R_DATETIME = re.compile(R_YEAR + r"-(0[1-9]|1[0-2])-(0[1-9]|[12][0-9]|3[01])T" + R_TIMEPART + R_TZ + r"\Z")
R_GYEAR = re.compile(R_YEAR + R_TZ + r"\Z")
R_GYEARMONTH = re.compile(R_YEAR + r"-(0[1-9]|1[0-2])" + R_TZ + r"\Z")
R_DURATION = re.compile(r"-?P(?=[0-9T])(?:([0-9]+)Y)?(?:([0-9]+)M)?(?:([0-9]+)D)?(?:T(?=[0-9])(?:([0-9]+)H)?(?:([0-9]+)M)?(?:([0-9]+(?:\.[0-9]+)?)S)?)?\Z")
R_HEX = re.compile(r"([0-9a-fA-F]{2})*\Z")
R_B64 = re.compile(r"((([A-Za-z0-9+/] ?){4})*(([A-Za-z0-9+/] ?){3}[A-Za-z0-9+/]|([A-Za-z0-9+/] ?){2}[AEIMQUYcgkosw048] ?=|[A-Za-z0-9+/] ?[AQgw] ?= ?=))?\Z")


def collapse(s):
    # RDF 1.1 Concepts 5.1/5.4: the lexical form itself must be in the lexical space; XSD's whiteSpace
    # pre-processing is not applied to RDF literals, so " 1 " is NOT a valid xsd:integer form here.
    return s


def local(dt):
    dt = str(dt)
    return dt[len(XSD):] if dt.startswith(XSD) else None


def _days_in_month(y, m):
    if m == 2:
        leap = (y % 4 == 0 and y % 100 != 0) or y % 400 == 0
        return 29 if leap else 28
    return 30 if m in (4, 6, 9, 11) else 31


def _tz(s):
    if not s:
        return None
    if s == "Z":
        return timezone.utc
    sign = 1 if s[0] == "+" else -1
    h, m = int(s[1:3]), int(s[4:6])
    return timezone(sign * timedelta(hours=h, minutes=m))


def known(dt):
    n = local(dt)
    return n is not None and (n in INT_RANGES or n in STRINGY or n in (
        "decimal", "float", "double", "boolean", "dateTime", "date", "time", "gYear", "gYearMonth", "duration",
        "dayTimeDuration", "yearMonthDuration", "hexBinary", "base64Binary"))


def valid(dt, lexical):
    n = local(dt)
    if n in STRINGY:
        return True
    s = collapse(lexical)
    if n in INT_RANGES:
        if not R_INT.match(s):
            return False
        v = int(s)
        lo, hi = INT_RANGES[n]
        return (lo is None or v >= lo) and (hi is None or v <= hi)
    if n == "decimal":
        return bool(R_DEC.match(s))
    if n in ("float", "double"):
        return bool(R_DBL.match(s))
    if n == "boolean":
        return s in ("true", "false", "1", "0")
    if n == "date":
        m = R_DATE.match(s)
        return bool(m) and int(m.group(3)) <= _days_in_month(int(m.group(1)), int(m.group(2)))
    if n == "time":
        return bool(R_TIME.match(s))
    if n == "dateTime":
        m = R_DATETIME.match(s)
        return bool(m) and int(m.group(3)) <= _days_in_month(int(m.group(1)), int(m.group(2)))
    if n == "gYear":
        return bool(R_GYEAR.match(s))
    if n == "gYearMonth":
        return bool(R_GYEARMONTH.match(s))
    if n in ("duration", "dayTimeDuration", "yearMonthDuration"):
        m = R_DURATION.match(s)
        if not m:
            return False
        y, mo, d, h, mi, sec = m.groups()
        if n == "dayTimeDuration" and (y or mo):
            return False
        if n == "yearMonthDuration" and (d or h or mi or sec or "T" in s):
            return False
        return True
    if n == "hexBinary":
        return bool(R_HEX.match(s))
    if n == "base64Binary":
        return bool(R_B64.match(s))
    raise KeyError(dt)


def _time_fields(g, off):
    """(hour, minute, second, microsecond, next_day, exact) from the TIMEPART groups starting at offset off."""
    if g[off + 4] is not None:  # 24:00:00
        return 0, 0, 0, 0, True, True
    frac = g[off + 3]
    us = 0
    exact = True
    if frac:
        digits = frac[1:]
        if len(digits) > 6 and digits[6:].strip("0"):
            exact = False
        us = int((digits + "000000")[:6])
    return int(g[off]), int(g[off + 1]), int(g[off + 2]), us, False, exact


def value(dt, lexical):
    """Value XSD assigns to a VALID lexical form, as the Python object rdflib documents for the datatype."""
    n = local(dt)
    s = collapse(lexical)
    if n in STRINGY:
        return UNREP  # value = (whitespace-processed) string; not compared
    if n in INT_RANGES:
        return int(s)
    if n == "decimal":
        return Decimal(s)
    if n in ("float", "double"):
        if s in ("INF", "+INF"):
            return float("inf")
        if s == "-INF":
            return float("-inf")
        if s == "NaN":
            return float("nan")
        return float(s)
    if n == "boolean":
        return s in ("true", "1")
    if n == "date":
        m = R_DATE.match(s)
        y = int(m.group(1))
        if not (1 <= y <= 9999):
            return UNREP
        if m.group(4):
            return UNREP  # rdflib maps xsd:date to datetime.date, which cannot carry a timezone
        return date(y, int(m.group(2)), int(m.group(3)))
    if n == "time":
        m = R_TIME.match(s)
        g = m.groups()
        h, mi, sec, us, nextday, exact = _time_fields(g, 0)
        if not exact:
            return UNREP
        return time(h, mi, sec, us, tzinfo=_tz(g[8]))
    if n == "dateTime":
        m = R_DATETIME.match(s)
        g = m.groups()
        y = int(g[0])
        if not (1 <= y <= 9999):
            return UNREP
        h, mi, sec, us, nextday, exact = _time_fields(g, 3)
        if not exact:
            return UNREP
        try:
            v = datetime(y, int(g[1]), int(g[2]), h, mi, sec, us, tzinfo=_tz(g[11]))
            if nextday:
                v = v + timedelta(days=1)
        except (ValueError, OverflowError):
            return UNREP
        return v
    if n in ("gYear", "gYearMonth", "duration", "dayTimeDuration", "yearMonthDuration"):
        return UNREP  # compared through validity / idempotence only
    if n == "hexBinary":
        return bytes.fromhex(s)
    if n == "base64Binary":
        return base64.b64decode(s.replace(" ", ""))
    raise KeyError(dt)


def same_value(a, b):
    if a is UNREP or b is UNREP:
        return True
    if isinstance(a, float) and isinstance(b, float) and a != a and b != b:
        return True
    if type(a) is not type(b) and not (isinstance(a, (int, float, Decimal)) and isinstance(b, (int, float, Decimal))):
        # datetime vs date etc.
        return False
    if isinstance(a, float) and isinstance(b, float) and a == 0 and b == 0:
        import math
        return math.copysign(1, a) == math.copysign(1, b)
    return a == b
