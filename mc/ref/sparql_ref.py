"""Reference SPARQL 1.1 evaluator for a bounded fragment (SPARQL 1.1 Query, section 18), bottom-up, with multiplicities.

Pattern AST (compositional: the text rendering wraps every non-BGP operand in its own group so that the
text denotes exactly this algebra expression):
  ("bgp", [(s, p, o), ...])         terms: ("var", name) | term key (see mc.canon.tkey)
  ("join", A, B)                    { A } { B }
  ("opt", A, B)                     A' OPTIONAL { B }                 LeftJoin(A, B, true)
  ("optf", A, B, e)                 A' OPTIONAL { B FILTER(e) }       LeftJoin(A, B, e)
  ("union", A, B)                   { A } UNION { B }
  ("minus", A, B)                   A' MINUS { B }
  ("filter", e, A)                  { A FILTER(e) }
  ("bind", A, e, v)                 A' BIND(e AS ?v)                  Extend(A, v, e)
  ("values", A, vars, rows)         A' VALUES (vars) { rows }         Join(A, table)
  ("valuesfirst", A, vars, rows)    VALUES (vars) { rows } A'         Join(table, A)
  ("subsel", A, vars, distinct)     { SELECT [DISTINCT] vars { A } }  Project
  ("graph", name, A)                GRAPH name { A }                  name: ("var", g) | term key
A' = A if A is a bgp, else "{ A }".

Expressions:
  ("var", x) | ("const", key) | ("=", a, b) | ("!=", a, b) | ("<", a, b) | (">", a, b) | ("bound", x) | ("!", e) | ("&&", a, b) | ("||", a, b)
  | ("+", a, b) | ("coalesce", [e...]) | ("if", c, a, b) | ("exists", bgp) | ("notexists", bgp) | ("sameterm", a, b) | ("isiri", a)
"""
from __future__ import annotations

XSD = "http://www.w3.org/2001/XMLSchema#"
XSD_INT = XSD + "integer"
XSD_BOOL = XSD + "boolean"
TRUE = ("L", "true", XSD_BOOL, None)
FALSE = ("L", "false", XSD_BOOL, None)


class ExprError(Exception):
    pass


def is_var(t):
    return isinstance(t, tuple) and len(t) == 2 and t[0] == "var"


def lit_int(n):
    return ("L", str(n), XSD_INT, None)


def num(k):
    if k[0] == "L" and k[2] == XSD_INT:
        try:
            return int(k[1])
        except ValueError:
            raise ExprError("ill-typed")
    raise ExprError("not numeric")


def is_num(k):
    return k[0] == "L" and k[2] == XSD_INT


def ebv(k):
    if k[0] == "L":
        if k[2] == XSD_BOOL:
            return k[1] in ("true", "1")
        if k[2] == XSD_INT:
            return num(k) != 0
        if k[2] is None or k[2] == XSD + "string":
            if k[3] is None:
                return len(k[1]) > 0
    raise ExprError("no EBV")


def boolean(b):
    return TRUE if b else FALSE


class Dataset:
    def __init__(self, default, named=None):
        self.default = set(default)
        self.named = {k: set(v) for k, v in (named or {}).items()}

    def union(self):
        out = set(self.default)
        for v in self.named.values():
            out |= v
        return out


class Evaluator:
    def __init__(self, dataset, default_union=False):
        self.ds = dataset
        self.default_union = default_union

    def default_graph(self):
        return self.ds.union() if self.default_union else self.ds.default

    # ---- expressions ---------------------------------------------------
    def expr(self, e, mu, active):
        t = e[0]
        if t == "var":
            if e[1] not in mu:
                raise ExprError("unbound")
            return mu[e[1]]
        if t == "const":
            return e[1]
        if t in ("=", "!="):
            a, b = self.expr(e[1], mu, active), self.expr(e[2], mu, active)
            if is_num(a) and is_num(b):
                r = num(a) == num(b)
            elif a[0] == "L" and b[0] == "L":
                if a == b:
                    r = True
                elif a[2] == b[2] and a[3] == b[3] and (a[2] is None or a[2] in (XSD + "string", XSD_BOOL)):
                    r = False
                else:
                    raise ExprError("incomparable literals")
            else:
                r = a == b
            return boolean(r if t == "=" else not r)
        if t in ("<", ">"):
            a, b = self.expr(e[1], mu, active), self.expr(e[2], mu, active)
            if is_num(a) and is_num(b):
                return boolean(num(a) < num(b) if t == "<" else num(a) > num(b))
            if a[0] == "L" and b[0] == "L" and a[2] is None and b[2] is None and a[3] is None and b[3] is None:
                return boolean(a[1] < b[1] if t == "<" else a[1] > b[1])
            raise ExprError("type error in comparison")
        if t == "bound":
            return boolean(e[1] in mu)
        if t == "sameterm":
            return boolean(self.expr(e[1], mu, active) == self.expr(e[2], mu, active))
        if t == "isiri":
            return boolean(self.expr(e[1], mu, active)[0] == "I")
        if t == "!":
            return boolean(not ebv(self.expr(e[1], mu, active)))
        if t in ("&&", "||"):
            vals = []
            for sub in (e[1], e[2]):
                try:
                    vals.append(ebv(self.expr(sub, mu, active)))
                except ExprError:
                    vals.append(None)
            if t == "&&":
                if False in vals:
                    return FALSE
                if None in vals:
                    raise ExprError("error in &&")
                return TRUE
            if True in vals:
                return TRUE
            if None in vals:
                raise ExprError("error in ||")
            return FALSE
        if t == "+":
            a, b = self.expr(e[1], mu, active), self.expr(e[2], mu, active)
            return lit_int(num(a) + num(b))
        if t == "coalesce":
            for sub in e[1]:
                try:
                    return self.expr(sub, mu, active)
                except ExprError:
                    continue
            raise ExprError("coalesce: all errors")
        if t == "if":
            c = ebv(self.expr(e[1], mu, active))
            return self.expr(e[2] if c else e[3], mu, active)
        if t in ("exists", "notexists"):
            found = any(compatible(mu, m) for m in self.pattern(e[1], active))
            return boolean(found if t == "exists" else not found)
        raise ValueError(e)

    def holds(self, e, mu, active):
        try:
            return ebv(self.expr(e, mu, active))
        except ExprError:
            return False

    # ---- patterns --------------------------------------------------------
    def bgp(self, triples, graph):
        sols = [{}]
        for pat in triples:
            nxt = []
            for mu in sols:
                for t in graph:
                    m = dict(mu)
                    ok = True
                    for x, v in zip(pat, t):
                        if is_var(x):
                            if x[1] in m:
                                if m[x[1]] != v:
                                    ok = False
                                    break
                            else:
                                m[x[1]] = v
                        elif x != v:
                            ok = False
                            break
                    if ok:
                        nxt.append(m)
            sols = nxt
        return sols

    def pattern(self, p, active=None):
        """active: None = default graph, else a graph name key."""
        t = p[0]
        if t == "bgp":
            g = self.default_graph() if active is None else self.ds.named.get(active, set())
            return self.bgp(p[1], g)
        if t == "join":
            return join(self.pattern(p[1], active), self.pattern(p[2], active))
        if t in ("opt", "optf"):
            A, B = self.pattern(p[1], active), self.pattern(p[2], active)
            e = p[3] if t == "optf" else None
            out = []
            for m1 in A:
                matched = False
                for m2 in B:
                    if compatible(m1, m2):
                        m = merge(m1, m2)
                        if e is None or self.holds(e, m, active):
                            out.append(m)
                            matched = True
                if not matched:
                    out.append(dict(m1))
            return out
        if t == "union":
            return [dict(m) for m in self.pattern(p[1], active)] + [dict(m) for m in self.pattern(p[2], active)]
        if t == "minus":
            A, B = self.pattern(p[1], active), self.pattern(p[2], active)
            return [dict(m1) for m1 in A if all((not compatible(m1, m2)) or not (set(m1) & set(m2)) for m2 in B)]
        if t == "filter":
            return [m for m in self.pattern(p[2], active) if self.holds(p[1], m, active)]
        if t == "bind":
            out = []
            for m in self.pattern(p[1], active):
                m = dict(m)
                try:
                    m[p[3]] = self.expr(p[2], m, active)
                except ExprError:
                    pass
                out.append(m)
            return out
        if t in ("values", "valuesfirst"):
            table = [{v: x for v, x in zip(p[2], row) if x is not None} for row in p[3]]
            A = self.pattern(p[1], active)
            return join(A, table) if t == "values" else join(table, A)
        if t == "subsel":
            rows = [{v: m[v] for v in p[2] if v in m} for m in self.pattern(p[1], active)]
            if len(p) > 3 and p[3]:
                seen, out = set(), []
                for m in rows:
                    k = frozenset(m.items())
                    if k not in seen:
                        seen.add(k)
                        out.append(m)
                return out
            return rows
        if t == "graph":
            name = p[1]
            if is_var(name):
                out = []
                for n in sorted(self.ds.named, key=repr):
                    for m in self.pattern(p[2], n):
                        if name[1] in m and m[name[1]] != n:
                            continue
                        m = dict(m)
                        m[name[1]] = n
                        out.append(m)
                return out
            return self.pattern(p[2], name)
        raise ValueError(p)


def compatible(m1, m2):
    for k, v in m1.items():
        if k in m2 and m2[k] != v:
            return False
    return True


def merge(m1, m2):
    m = dict(m1)
    m.update(m2)
    return m


def join(A, B):
    return [merge(a, b) for a in A for b in B if compatible(a, b)]


# ---- variables in scope ------------------------------------------------------

def scope(p):
    t = p[0]
    if t == "bgp":
        return {x[1] for tr in p[1] for x in tr if is_var(x)}
    if t in ("join", "opt", "optf", "union"):
        return scope(p[1]) | scope(p[2])
    if t == "minus":
        return scope(p[1])
    if t == "filter":
        return scope(p[2])
    if t == "bind":
        return scope(p[1]) | {p[3]}
    if t in ("values", "valuesfirst"):
        return scope(p[1]) | set(p[2])
    if t == "subsel":
        return set(p[2])
    if t == "graph":
        return scope(p[2]) | ({p[1][1]} if is_var(p[1]) else set())
    raise ValueError(p)


def expr_vars(e):
    t = e[0]
    if t == "var":
        return {e[1]}
    if t == "bound":
        return {e[1]}
    if t == "const":
        return set()
    if t == "coalesce":
        return set().union(*[expr_vars(x) for x in e[1]])
    if t in ("exists", "notexists"):
        return scope(e[1])
    out = set()
    for x in e[1:]:
        if isinstance(x, tuple):
            out |= expr_vars(x)
    return out


# ---- rendering -----------------------------------------------------------------

def term_text(k):
    if is_var(k):
        return "?" + k[1]
    if k[0] == "I":
        return "<%s>" % k[1]
    if k[0] == "L":
        if k[2] == XSD_INT:
            return k[1]
        if k[2] == XSD_BOOL:
            return k[1]
        s = '"%s"' % k[1].replace("\\", "\\\\").replace('"', '\\"')
        if k[3]:
            return s + "@" + k[3]
        if k[2]:
            return s + "^^<%s>" % k[2]
        return s
    raise ValueError(k)


def bgp_text(triples):
    return " ".join("%s %s %s ." % tuple(term_text(x) for x in tr) for tr in triples)


def expr_text(e):
    t = e[0]
    if t == "var":
        return "?" + e[1]
    if t == "const":
        return term_text(e[1])
    if t in ("=", "!=", "<", ">", "&&", "||", "+"):
        return "(%s %s %s)" % (expr_text(e[1]), t, expr_text(e[2]))
    if t == "bound":
        return "bound(?%s)" % e[1]
    if t == "!":
        return "(!%s)" % expr_text(e[1])
    if t == "sameterm":
        return "sameTerm(%s, %s)" % (expr_text(e[1]), expr_text(e[2]))
    if t == "isiri":
        return "isIRI(%s)" % expr_text(e[1])
    if t == "coalesce":
        return "coalesce(%s)" % ", ".join(expr_text(x) for x in e[1])
    if t == "if":
        return "if(%s, %s, %s)" % (expr_text(e[1]), expr_text(e[2]), expr_text(e[3]))
    if t == "exists":
        return "EXISTS { %s }" % inner(e[1])
    if t == "notexists":
        return "NOT EXISTS { %s }" % inner(e[1])
    raise ValueError(e)


def wrapped(p):
    """Operand as a group element: a BGP stays bare, everything else gets its own braces."""
    if p[0] == "bgp":
        return bgp_text(p[1])
    return "{ %s }" % inner(p)


def inner(p):
    """Content of a group graph pattern denoting exactly p."""
    t = p[0]
    if t == "bgp":
        return bgp_text(p[1])
    if t == "join":
        return "{ %s } { %s }" % (inner(p[1]), inner(p[2]))
    if t == "opt":
        # a FILTER that is a direct element of the OPTIONAL group would become the LeftJoin condition: give it its own group
        right = "{ %s }" % inner(p[2]) if p[2][0] == "filter" else inner(p[2])
        return "%s OPTIONAL { %s }" % (wrapped(p[1]), right)
    if t == "optf":
        # the filter must be the only top-level filter of the optional group: wrap the right operand
        return "%s OPTIONAL { %s FILTER(%s) }" % (wrapped(p[1]), wrapped(p[2]), expr_text(p[3]))
    if t == "union":
        return "{ %s } UNION { %s }" % (inner(p[1]), inner(p[2]))
    if t == "minus":
        return "%s MINUS { %s }" % (wrapped(p[1]), inner(p[2]))
    if t == "filter":
        return "%s FILTER(%s)" % (wrapped(p[2]), expr_text(p[1]))
    if t == "bind":
        return "%s BIND(%s AS ?%s)" % (wrapped(p[1]), expr_text(p[2]), p[3])
    if t in ("values", "valuesfirst"):
        rows = " ".join("(%s)" % " ".join("UNDEF" if x is None else term_text(x) for x in row) for row in p[3])
        v = "VALUES (%s) { %s }" % (" ".join("?" + x for x in p[2]), rows)
        return "%s %s" % (wrapped(p[1]), v) if t == "values" else "%s %s" % (v, wrapped(p[1]))
    if t == "subsel":
        return "{ SELECT %s%s WHERE { %s } }" % ("DISTINCT " if len(p) > 3 and p[3] else "", " ".join("?" + x for x in p[2]), inner(p[1]))
    if t == "graph":
        return "GRAPH %s { %s }" % (term_text(p[1]), inner(p[2]))
    raise ValueError(p)


def legal(p):
    """Static legality: BIND variable must not be in scope before it; recursively."""
    t = p[0]
    if t == "bgp":
        return True
    if t == "bind":
        return legal(p[1]) and p[3] not in scope(p[1])
    if t == "filter":
        return legal(p[2])
    if t in ("values", "valuesfirst", "subsel"):
        return legal(p[1])
    if t == "graph":
        return legal(p[2])
    return all(legal(x) for x in p[1:3])
