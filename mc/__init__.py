"""Bounded exhaustive model checking of rdflib (see /verif/DESIGN.md)."""
