"""Term keys, canonical object fingerprints, brute-force blank-node isomorphism.

Nothing here goes through rdflib's own __eq__/__hash__ for terms: term keys are read
from the str payload, .datatype and .language, so the laws of C07 are not assumed.
"""
from __future__ import annotations

import hashlib
import itertools
import re

from rdflib.term import BNode, Identifier, Literal, URIRef, Variable
from rdflib.graph import Graph


def tkey(t):
    """Independent identity of an RDF term (kind, lexical, datatype, language)."""
    if t is None:
        return None
    c = type(t)
    if c is URIRef:
        return ("I", str.__str__(t))
    if c is BNode:
        return ("B", str.__str__(t))
    if isinstance(t, Literal):
        dt = t.datatype
        lang = t.language
        return (
            "L",
            str.__str__(t),
            None if dt is None else str.__str__(dt),
            None if lang is None else str.__str__(lang).lower(),
        )
    if isinstance(t, BNode):
        return ("B", str.__str__(t))
    if isinstance(t, Variable):
        return ("V", str.__str__(t))
    if isinstance(t, URIRef):
        return ("I", str.__str__(t))
    if isinstance(t, Graph):
        return ("G", tkey(t.identifier))
    if isinstance(t, Identifier):
        return (type(t).__name__, str.__str__(t))
    raise TypeError("not a term: %r" % (t,))


def tkeys(tup):
    return tuple(tkey(x) for x in tup)


def from_key(k):
    """Rebuild a term from its key (for replay files)."""
    if k is None:
        return None
    k = tuple(k)
    if k[0] == "I":
        return URIRef(k[1])
    if k[0] == "B":
        return BNode(k[1])
    if k[0] == "V":
        return Variable(k[1])
    if k[0] == "L":
        return Literal(k[1], datatype=None if k[2] is None else URIRef(k[2]), lang=k[3])
    raise ValueError(k)


def _sortkey(x):
    return repr(x)


def canon(obj, _depth=0, _seen=None):
    """Canonical, hashable form of an arbitrary object graph.

    dict -> sorted item tuple, set -> sorted tuple, list/tuple positional, rdflib terms
    by tkey, Graph by (class, identifier), other objects by (class, canon(vars)).
    Insertion order of dicts/sets is deliberately dropped (DESIGN 2.1).
    """
    c = type(obj)
    if obj is None or c is int or c is bool or c is float:
        return obj
    if c is URIRef or c is BNode or c is Literal:
        return tkey(obj)
    if c is str:
        return obj
    if isinstance(obj, Identifier):
        return tkey(obj)
    if isinstance(obj, (str, bytes)):
        return obj
    if _seen is None:
        _seen = set()
    if isinstance(obj, Graph):
        return ("G", type(obj).__name__, tkey(obj.identifier))
    oid = id(obj)
    if oid in _seen or _depth > 40:
        return ("ref", type(obj).__name__)
    _seen = _seen | {oid}
    if isinstance(obj, dict):
        items = [
            (canon(k, _depth + 1, _seen), canon(v, _depth + 1, _seen))
            for k, v in obj.items()
        ]
        items.sort(key=_sortkey)
        return ("d",) + tuple(items)
    if isinstance(obj, (set, frozenset)):
        items = [canon(k, _depth + 1, _seen) for k in obj]
        items.sort(key=_sortkey)
        return ("s",) + tuple(items)
    if isinstance(obj, (list, tuple)):
        return ("l",) + tuple(canon(k, _depth + 1, _seen) for k in obj)
    if callable(obj) and not hasattr(obj, "__dict__"):
        return ("fn", getattr(obj, "__name__", "?"))
    d = getattr(obj, "__dict__", None)
    if d is None:
        slots = []
        for klass in type(obj).__mro__:
            slots.extend(getattr(klass, "__slots__", ()))
        if slots:
            d = {s: getattr(obj, s, None) for s in slots if isinstance(s, str)}
        else:
            return ("o", type(obj).__name__)
    return ("O", type(obj).__name__, canon(d, _depth + 1, _seen))


_GEN_ID = re.compile(r"N[0-9a-f]{32}")


def digest(x) -> bytes:
    """Digest of a canonical form; generated blank-node ids (deterministic counter, DESIGN 2.4)
    are renamed by order of first occurrence so states differing by a counter offset merge."""
    r = repr(x)
    if "N0" in r:
        names = {}

        def sub(m):
            return names.setdefault(m.group(0), "GEN%d" % len(names))

        r = _GEN_ID.sub(sub, r)
    return hashlib.blake2b(r.encode("utf-8", "surrogatepass"), digest_size=16).digest()


# ---------------------------------------------------------------------------
# brute-force isomorphism of tuple sets (triples or quads of term keys)


def _is_b(k):
    return isinstance(k, tuple) and len(k) == 2 and k[0] == "B"


def _bnodes(rows):
    out = []
    seen = set()
    for r in rows:
        for x in r:
            if _is_b(x) and x not in seen:
                seen.add(x)
                out.append(x)
    return out


def _signature(rows, b):
    sig = []
    for r in rows:
        for i, x in enumerate(r):
            if x == b:
                sig.append((i, tuple("*" if _is_b(y) else y for y in r)))
    sig.sort(key=repr)
    return tuple(sig)


def iso(rows1, rows2):
    """True iff some bijection of blank-node keys maps rows1 onto rows2.

    rows are iterables of tuples of term keys (None allowed as default-graph marker).
    Multiplicity is ignored (sets).
    """
    s1 = set(rows1)
    s2 = set(rows2)
    if len(s1) != len(s2):
        return False
    g1 = {r for r in s1 if not any(_is_b(x) for x in r)}
    g2 = {r for r in s2 if not any(_is_b(x) for x in r)}
    if g1 != g2:
        return False
    r1 = sorted(s1 - g1, key=repr)
    r2 = s2 - g2
    b1 = _bnodes(r1)
    b2 = _bnodes(sorted(r2, key=repr))
    if len(b1) != len(b2):
        return False
    if not b1:
        return True
    sig1 = {b: _signature(r1, b) for b in b1}
    sig2 = {b: _signature(r2, b) for b in b2}
    cands = {}
    for b in b1:
        cands[b] = [c for c in b2 if sig2[c] == sig1[b]]
        if not cands[b]:
            return False
    order = sorted(b1, key=lambda b: len(cands[b]))

    def rec(i, mapping, used):
        if i == len(order):
            img = {tuple(mapping.get(x, x) if _is_b(x) else x for x in r) for r in r1}
            return img == r2
        b = order[i]
        for c in cands[b]:
            if c in used:
                continue
            mapping[b] = c
            # partial check: rows fully mapped must be in r2
            ok = True
            for r in r1:
                if b in r:
                    if all((not _is_b(x)) or x in mapping for x in r):
                        if tuple(mapping.get(x, x) if _is_b(x) else x for x in r) not in r2:
                            ok = False
                            break
            if ok and rec(i + 1, mapping, used | {c}):
                return True
            del mapping[b]
        return False

    return rec(0, {}, frozenset())


def canon_rows(rows):
    """Canonical form of a row set modulo blank-node renaming (brute force, <= 7 bnodes)."""
    rows = set(rows)
    bs = _bnodes(sorted(rows, key=repr))
    if not bs:
        return tuple(sorted(rows, key=repr))
    if len(bs) > 7:
        raise ValueError("too many blank nodes for brute-force canonical form")
    best = None
    names = [("B", "c%d" % i) for i in range(len(bs))]
    for perm in itertools.permutations(names):
        m = dict(zip(bs, perm))
        img = tuple(sorted((tuple(m.get(x, x) if _is_b(x) else x for x in r) for r in rows), key=repr))
        if best is None or repr(img) < repr(best):
            best = img
    return best


def graph_rows(g):
    return {tkeys(t) for t in g}


def quad_rows(ds, default_ids=()):
    """Quads of a ConjunctiveGraph/Dataset as key rows; default graph spelled None."""
    out = set()
    for s, p, o, c in ds.quads((None, None, None, None)):
        if c is None:
            ck = None
        else:
            cid = c.identifier if isinstance(c, Graph) else c
            ck = tkey(cid)
            if ck in default_ids or ck == ("I", "urn:x-rdflib:default"):
                ck = None
        out.add((tkey(s), tkey(p), tkey(o), ck))
    return out
