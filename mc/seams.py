"""Determinism seams, all applied from outside the library (no hooks in /repo)."""
from __future__ import annotations

import contextlib
import signal


class _FakeUUID:
    __slots__ = ("hex", "urn")

    def __init__(self, n):
        self.hex = "%032x" % n
        self.urn = "urn:uuid:%s" % self.hex

    def __str__(self):
        return self.hex


class BNodeCounter:
    """Replacement for uuid4 in rdflib.term / notation3: deterministic, asc or desc."""

    def __init__(self, descending=False):
        self.descending = descending
        self.reset()

    def reset(self):
        self.n = 0

    def __call__(self):
        self.n += 1
        if self.descending:
            return _FakeUUID((1 << 60) - self.n)
        return _FakeUUID(self.n)


COUNTER = BNodeCounter()


def install_bnode_counter(descending=False):
    import rdflib.term
    import rdflib.plugins.parsers.notation3 as n3

    COUNTER.descending = descending
    COUNTER.reset()
    rdflib.term.uuid4 = COUNTER
    n3.uuid4 = COUNTER


def reset_bnode_counter():
    COUNTER.reset()


class Timeout(Exception):
    pass


@contextlib.contextmanager
def watchdog(seconds):
    """Per-case horizon (bounded liveness). Main thread only."""

    def handler(signum, frame):
        raise Timeout("did not terminate within %ss" % seconds)

    old = signal.signal(signal.SIGALRM, handler)
    signal.setitimer(signal.ITIMER_REAL, seconds)
    try:
        yield
    finally:
        signal.setitimer(signal.ITIMER_REAL, 0)
        signal.signal(signal.SIGALRM, old)


@contextlib.contextmanager
def sparql_union(flag):
    import rdflib.plugins.sparql as sp

    old = sp.SPARQL_DEFAULT_GRAPH_UNION
    sp.SPARQL_DEFAULT_GRAPH_UNION = flag
    try:
        yield
    finally:
        sp.SPARQL_DEFAULT_GRAPH_UNION = old
