#!/bin/sh
# MANIFEST.setup_cmd: offline sanity check of the interpreter and the engine; nothing is downloaded or built.
set -e
cd "$(dirname "$0")"
test -x /venv/bin/python
PYTHONDONTWRITEBYTECODE=1 /venv/bin/python - <<'PY'
import sys
sys.path.insert(0, "/verif"); sys.path.insert(0, "/repo")
import rdflib
assert rdflib.__file__.startswith("/repo/"), rdflib.__file__
from mc import canon, explore, run, seams, vocab
vocab.check_vocab()
print("setup ok: rdflib", rdflib.__version__, "python", sys.version.split()[0])
PY
mkdir -p evidence replays
