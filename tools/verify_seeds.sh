#!/bin/bash
# Re-apply every kept seeded change to /repo (git apply), run the quick check of its property, revert. Never commits.
# Prints one line per seed: DETECTED / MISSED / DOES-NOT-APPLY.
cd /verif
for d in seeded/*/; do
  name=$(basename $d)
  prop=$(/venv/bin/python -c "import json;print(json.load(open('$d/meta.json'))['breaks_property'])")
  if ! git -C /repo apply --check /verif/$d/patch.diff 2>/dev/null; then echo "$name $prop DOES-NOT-APPLY"; continue; fi
  out=$(VERIF_NO_CONFIRM=1 tools/try_seed.sh $prop /verif/$d/patch.diff quick 2>&1); rc=$?
  if [ $rc -eq 1 ]; then echo "$name $prop DETECTED $(echo "$out" | grep -c signature) signature(s)"; else echo "$name $prop MISSED rc=$rc"; fi
done
