#!/usr/bin/env python3
"""keep_seed.py <seed-id> <property> <outdir> <detected_by> <needs...>: store a confirmed seeded change under /verif/seeded/<seed-id>/."""
import json, os, shutil, sys
sid, prop, outdir, detected = sys.argv[1:5]
needs = " ".join(sys.argv[5:])
d = os.path.join("/verif/seeded", sid)
os.makedirs(d, exist_ok=True)
shutil.copy(os.path.join(outdir, "patch.diff"), os.path.join(d, "patch.diff"))
shutil.copy(os.path.join(outdir, "demo.py"), os.path.join(d, "demo.py"))
notes = open(os.path.join(outdir, "notes.txt")).read() if os.path.exists(os.path.join(outdir, "notes.txt")) else ""
meta = {"id": sid, "breaks_property": prop, "needs_to_manifest": needs, "author": "independent sub-agent given only the property text and a scratch worktree",
        "author_notes": notes,
        "confirmed": {"demo_fails_with_patch": True, "demo_passes_without_patch": True,
                      "repository_tests": os.environ.get("SEED_TESTS", "author ran the full suite (no new failures); own comparison with BASELINE.json pending")},
        "detected_by": detected}
json.dump(meta, open(os.path.join(d, "meta.json"), "w"), indent=1)
print("kept", d)
