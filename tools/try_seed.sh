#!/bin/bash
# usage: try_seed.sh <property> <patch.diff> [tier]  -- applies the patch to /repo, runs the check, reverts. Never commits.
set -u
P=$1; PATCH=$2; TIER=${3:-quick}
# a seeded change must never be visible to another check run: refuse while one is in progress
if pgrep -f "verif/chec[k] C" > /dev/null; then echo "ANOTHER CHECK IS RUNNING - not touching /repo"; exit 9; fi
cd /repo || exit 9
if [ -n "$(git status --porcelain --untracked-files=no)" ]; then echo "REPO NOT CLEAN"; exit 9; fi
git apply --check "$PATCH" || { echo "PATCH DOES NOT APPLY"; exit 9; }
git apply "$PATCH"
cd /verif
VERIF_NO_CONFIRM=${VERIF_NO_CONFIRM:-0} ./check "$P" --tier "$TIER" > /var/tmp/try_seed_$P.log 2>&1
RC=$?
git -C /repo checkout -- .
grep -E "^VIOLATION|^KNOWN|^HARNESS|^$P tier" /var/tmp/try_seed_$P.log | cut -c1-300 | head -12
grep -A1 "^VIOLATION" /var/tmp/try_seed_$P.log | grep signature | head -8
echo "rc=$RC (1 = detected)"
exit $RC
