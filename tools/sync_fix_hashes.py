#!/usr/bin/env python3
"""Rewrite commit hashes of status=fixed entries in known_findings.json from /repo's git log (matched by subject)."""
import json, subprocess
log = subprocess.check_output(["git", "-C", "/repo", "log", "--format=%h\t%s"]).decode().splitlines()
by_subject = {l.split("\t", 1)[1]: l.split("\t", 1)[0] for l in log if "\t" in l}
d = json.load(open("/verif/known_findings.json"))
for e in d["findings"]:
    if e.get("status") != "fixed":
        continue
    subj = e.get("subject")
    if not subj:
        # recover subject from the old hash if it still exists
        try:
            subj = subprocess.check_output(["git", "-C", "/repo", "log", "-1", "--format=%s", e["commit"]], stderr=subprocess.DEVNULL).decode().strip()
        except Exception:
            subj = None
        e["subject"] = subj
    if subj in by_subject:
        old = e["commit"]
        e["commit"] = by_subject[subj]
        e["line"] = e["line"].replace(old, e["commit"])
    else:
        print("WARNING: no commit with subject", subj, "for", e["line"][:80])
json.dump(d, open("/verif/known_findings.json", "w"), indent=1)
print("ok")
