#!/bin/bash
# As verify_seeds.sh, but on a scratch worktree of /repo (VERIF_REPO) with the evidence written to a scratch directory:
# /repo and evidence/ are not touched, so this can run next to other checks. usage: verify_seeds_wt.sh [name-glob]
cd /verif
WT=/var/tmp/wt_seeds
git -C /repo worktree remove --force $WT 2>/dev/null
git -C /repo worktree add -q --detach $WT HEAD || exit 9
export VERIF_REPO=$WT VERIF_EVIDENCE_DIR=/var/tmp/ev_seeds VERIF_NO_CONFIRM=1
for d in seeded/${1:-*}/; do
  name=$(basename $d)
  prop=$(/venv/bin/python -c "import json;print(json.load(open('$d/meta.json'))['breaks_property'])")
  if ! git -C $WT apply --check /verif/$d/patch.diff 2>/dev/null; then echo "$name $prop DOES-NOT-APPLY"; continue; fi
  git -C $WT apply /verif/$d/patch.diff
  out=$(./check $prop --tier quick 2>&1); rc=$?
  git -C $WT checkout -- .
  if [ $rc -eq 1 ]; then echo "$name $prop DETECTED $(echo "$out" | grep -c signature) signature(s)"; else echo "$name $prop MISSED rc=$rc"; echo "$out" | tail -3 | cut -c1-300; fi
done
git -C /repo worktree remove --force $WT
rm -rf /var/tmp/ev_seeds
