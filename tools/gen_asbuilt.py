#!/usr/bin/env python3
"""Rewrite the block between <!-- ASBUILT --> markers in DESIGN.md from the property modules' META and the current evidence files."""
import json, os, re, sys
sys.path[:0] = ["/verif", "/repo"]
import importlib
rows = []
for i in range(1, 21):
    pid = "C%02d" % i
    mod = importlib.import_module("mc.props." + pid)
    ev = {}
    p = "/verif/evidence/%s.json" % pid
    if os.path.exists(p):
        ev = json.load(open(p))
    cov = ev.get("coverage", {})
    nums = ", ".join("%s=%s" % (k, cov[k]) for k in ("states", "transitions", "schedules", "evaluations", "distinct_nontrivial", "closure_reached", "max_depth") if k in cov)
    rows.append("| %s | %s | %s | %s (%s tier, %.0f s) | %s |" % (pid, mod.LEVEL, mod.META["technique"], nums, ev.get("tier", "?"), ev.get("wall_s", 0), mod.META["note"].replace("|", "/")))
block = ("<!-- ASBUILT -->\n| id | level | deciding technique | last run recorded in evidence/ | as-built scope (module META) |\n|---|---|---|---|---|\n" + "\n".join(rows) + "\n<!-- /ASBUILT -->")
s = open("/verif/DESIGN.md").read()
if "<!-- ASBUILT -->" in s:
    s = re.sub(r"<!-- ASBUILT -->.*?<!-- /ASBUILT -->", lambda m: block, s, flags=re.S)
else:
    marker = "## 4. Per-property design\n"
    s = s.replace(marker, marker + "\n**As built.** The paragraphs below are the per-property design as written before the code; bounds and costs in them are the planned ones. "
                  "What each check enumerates now is stated in the `rule` string of its evidence file and summarised here (regenerate with `tools/gen_asbuilt.py`):\n\n" + block + "\n", 1)
open("/verif/DESIGN.md", "w").write(s)
print("ok")
