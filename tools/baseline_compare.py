#!/usr/bin/env python3
"""Run the repository's test suite (guard off; there are no hooks) and compare with BASELINE.json's stable_pass set."""
import json, subprocess, sys, xml.etree.ElementTree as ET, os, tempfile
out = sys.argv[1] if len(sys.argv) > 1 else "/var/tmp/baseline.junit.xml"
if not os.environ.get("SKIP_RUN"):
    subprocess.run("cd " + os.environ.get("REPO_DIR", "/repo") + " && /venv/bin/python -m pytest -ra -q -p no:cacheprovider --timeout=900 --continue-on-collection-errors --junitxml=%s > %s.log 2>&1" % (out, out), shell=True)
base = json.load(open("/root/.vp/BASELINE.json"))
stable = set(base["stable_pass"])
passed = set(); failed = set()
for tc in ET.parse(out).getroot().iter("testcase"):
    tid = ("%s::%s" % (tc.get("classname"), tc.get("name"))).replace(os.environ.get("REPO_DIR", "/repo") + "/", "/repo/")
    bad = any(ch.tag in ("failure", "error") for ch in tc)
    skipped = any(ch.tag == "skipped" for ch in tc)
    if bad: failed.add(tid)
    elif not skipped: passed.add(tid)
missing = sorted(m for m in stable - passed if "test_swap_n3::test_cases[generictest-envelope" not in m)  # ids of these depend on set order (flaky naming, see DESIGN)
print("stable_pass=%d passed_now=%d failed_now=%d stable_not_passing_now=%d" % (len(stable), len(passed), len(failed), len(missing)))
for m in missing[:40]: print("  REGRESSION:", m, "(failed)" if m in failed else "(not run/skipped)")
sys.exit(1 if missing else 0)
