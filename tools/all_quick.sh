#!/bin/bash
# run every registered quick check for the given seeds; print one line per check
cd /verif
for seed in "$@"; do
  for p in C01 C02 C03 C04 C05 C06 C07 C08 C09 C10 C11 C12 C13 C14 C15 C16 C17 C18 C19 C20; do
    s=$(date +%s)
    out=$(VERIF_SEED=$seed ./check $p --tier quick 2>&1); rc=$?
    echo "seed=$seed $p rc=$rc wall=$(( $(date +%s)-s ))s viol=$(echo "$out" | grep -c '^VIOLATION') known=$(echo "$out" | grep -c '^KNOWN-FINDING')"
    [ $rc -ne 0 ] && echo "$out" | tail -5
  done
done
