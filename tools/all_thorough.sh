#!/bin/bash
# run the thorough tier of the given properties (default: all); one line per check
cd /verif
props=${@:-C01 C02 C03 C04 C05 C06 C07 C08 C09 C10 C11 C12 C13 C14 C15 C16 C17 C18 C19 C20}
for p in $props; do
  s=$(date +%s)
  out=$(./check $p --tier thorough 2>&1); rc=$?
  echo "$p rc=$rc wall=$(( $(date +%s)-s ))s viol=$(echo "$out" | grep -c '^VIOLATION') known=$(echo "$out" | grep -c '^KNOWN-FINDING') $(echo "$out" | tail -1 | cut -c1-200)"
  [ $rc -ne 0 ] && echo "$out" | grep -A2 "^VIOLATION\|^HARNESS\|^UNCONF" | cut -c1-500 | head -30
done
