#!/bin/bash
# process_seed.sh <round-prefix e.g. 3> <prop>...: confirm the demo with/without the patch, run the quick check against it, start the baseline comparison on its worktree
R=$1; shift
cd /verif
for p in "$@"; do
  echo "=== $p"
  (cd /repo && git apply /tmp/out${R}_$p/patch.diff && PYTHONPATH=/repo /venv/bin/python /tmp/out${R}_$p/demo.py >/dev/null 2>&1; echo "demo with patch rc=$?"; git checkout -- .; PYTHONPATH=/repo /venv/bin/python /tmp/out${R}_$p/demo.py > /dev/null 2>&1; echo "demo clean rc=$?")
  tools/try_seed.sh $p /tmp/out${R}_$p/patch.diff quick 2>&1 | grep -v "^KNOWN" | tail -4
  REPO_DIR=/tmp/wt${R}_$p nohup /venv/bin/python tools/baseline_compare.py /var/tmp/bl_seed${R}_$p.xml > /var/tmp/bl_seed${R}_$p.txt 2>&1 &
done
