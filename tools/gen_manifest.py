#!/venv/bin/python
"""Regenerate MANIFEST.json from the META blocks of mc/props/C*.py (run from /verif)."""
import importlib, json, os, sys
HERE = os.path.dirname(os.path.dirname(os.path.abspath(__file__)))
sys.path.insert(0, HERE); sys.path.insert(0, "/repo")
ids = [json.loads(l)["id"] for l in open(os.path.join(HERE, "properties.jsonl"))]
checks, na = [], []
PENDING = json.load(open(os.path.join(HERE, "tools", "pending.json")))
for pid in ids:
    path = os.path.join(HERE, "mc", "props", pid + ".py")
    if not os.path.exists(path) or pid in PENDING.get("unregistered", []):
        na.append({"property_id": pid, "reason": PENDING["reasons"].get(pid, "check not built yet (machinery under construction; see DESIGN.md section 4 for the planned bounded exhaustive check)")})
        continue
    m = importlib.import_module("mc.props." + pid)
    meta = m.META
    checks.append({
        "property_id": pid,
        "quick_cmd": "./check %s --tier quick" % pid,
        "thorough_cmd": "./check %s --tier thorough" % pid,
        "evidence_file": "/verif/evidence/%s.json" % pid,
        "replay_cmd_template": "./check %s --replay {path}" % pid,
        "engine": "mc",
        "level_claimed": {"category": m.LEVEL, "text": meta["text"], "design_ref": meta.get("design_ref", "DESIGN.md section 4 " + pid)},
        "level_note": meta["note"],
        "technique": meta["technique"],
    })
man = {
    "version": 1,
    "setup_cmd": "./setup.sh",
    "hooks": {
        "guard": "RDFLIB_VERIF",
        "enable": "no hooks in /repo: checks import rdflib from /repo's working tree (sys.path) and apply their seams (blank-node id counter, hash seed, urlopen loopback, SPARQL switches) from outside the library",
        "baseline_off_cmd": "cd /repo && /venv/bin/python -m pytest -ra -q -p no:cacheprovider --timeout=900 --continue-on-collection-errors",
        "source_commits": [],
        "add_only": True,
    },
    "engines": [{"name": "mc", "path": "/verif/mc", "serves_properties": [c["property_id"] for c in checks],
                 "kind_free_text": "hand-written explicit-state explorer and downward-closed input enumerators for Python; drives the real rdflib code, compares with reference models; bounded exhaustive, nothing sampled"}],
    "checks": checks,
    "not_applicable": na,
    "notes": "All checks: ./check <id> --tier quick|thorough. exit 0 = held (KNOWN-FINDING lines for findings listed in known_findings.json), exit 1 = VIOLATION line, exit 2 = harness error. VERIF_SEED selects PYTHONHASHSEED and the direction of the deterministic blank-node id counter; the enumerated space is the same for every seed.",
}
json.dump(man, open(os.path.join(HERE, "MANIFEST.json"), "w"), indent=1)
print("checks:", [c["property_id"] for c in checks], "n/a:", [x["property_id"] for x in na])
