#!/usr/bin/env python3
"""gen_seed_prompts.py <round>: write /tmp/agent_prompt<round>_<id>.txt for every property - the complete brief for an independent author of a
seeded (property-breaking, test-passing) change. The author sees the property text, the rules and the first line of the notes of the changes
already kept under seeded/ ("already taken"), and works in its own scratch worktree /tmp/wt<round>_<id> (create it with
`git -C /repo worktree add --detach /tmp/wt<round>_<id> HEAD`); nothing from /verif is shown. Process the result with tools/process_seed.sh."""
import glob
import json
import sys

R = sys.argv[1]
TEMPLATE = """You are helping test a verification effort for the Python library rdflib (RDFLib/rdflib, version 8.0.0a0). Your job: write ONE realistic, subtle bug ("seeded change") into rdflib's source that BREAKS the semantic property given below, while the library still imports and its existing test suite still passes. Then write a small demonstration program that fails with your change and passes without it.

PROPERTY (this is the only specification you get):
---
{statement}
---

WORKSPACE: you have your own scratch git worktree of the repository at /tmp/wt{R}_{id} . Work ONLY inside that directory (and /tmp/out{R}_{id} for your outputs). Do NOT read, list or touch /verif or /repo -- they are off limits; everything you need is in your worktree. Use the interpreter /venv/bin/python. Running `/venv/bin/python -m pytest ...` or `/venv/bin/python script.py` with the worktree as current directory imports the worktree's rdflib (check with `import rdflib; print(rdflib.__file__)`).

WHAT KIND OF CHANGE: something a plausible refactoring / optimisation / "cleanup" commit could introduce, in the source files relevant to the property (not in tests). It must need something SPECIFIC to manifest -- a particular multi-step sequence of operations, an unusual-but-legal input (e.g. falsy terms, empty graphs, repeated or shared items, a specific index/position, re-doing something undone), two cooperating sites that each look fine alone, a cache/state that goes stale only after a specific earlier call, an off-by-one that only bites at a boundary -- NOT something that ordinary use would expose at once (e.g. do not simply make `add` a no-op). Good candidates: shared mutable state hoisted out of a function, a cursor/index advanced too early, an index/cache not updated on one path, a truthiness test instead of `is not None`, wrong order of two statements, a dropped copy() before iteration, an early-return on an edge case.

REQUIREMENTS:
1. The change must keep rdflib importable and keep the existing tests passing. While iterating, run only the relevant test files (e.g. `/venv/bin/python -m pytest -p no:cacheprovider -q test/test_graph test/test_store` or whichever cover the files you touched, plus doctests of the file you touched: `/venv/bin/python -m pytest -p no:cacheprovider -q rdflib/<file>.py`). When you are satisfied, run the WHOLE suite ONCE from the worktree root: `/venv/bin/python -m pytest -q -p no:cacheprovider --timeout=900 --continue-on-collection-errors -x --deselect rdflib/__init__.py --deselect rdflib/extras/infixowl.py 2>&1 | tail -30` (takes ~3-4 minutes). NOTE: about 25 tests fail even on the unchanged tree (mostly test/jsonld/test_onedotone.py cases, two doctest modules rdflib/__init__.py and rdflib/extras/infixowl.py, network-dependent tests); to tell whether a failure is yours, undo your change with `git apply -R` as described below and re-run just that test. If -x stops at one of those pre-existing failures, re-run without -x and compare the set of failures with and without your change (only the difference matters). Your change must not add any new failing test and must not rename existing tests.
2. Write the demonstration as /tmp/out{R}_{id}/demo.py: a plain Python script (no pytest needed) that uses only public rdflib API, exits 0 and prints "OK" when the property holds on the scenario it exercises, and exits 1 printing what went wrong when it does not. It must exit 1 with your change applied and exit 0 on the unchanged worktree (verify both: save your change with `git diff > /tmp/out{R}_{id}/patch.diff`, undo it with `git apply -R /tmp/out{R}_{id}/patch.diff` and re-apply it with `git apply /tmp/out{R}_{id}/patch.diff` -- do NOT use `git stash`, the stash is shared between worktrees).
3. Save the change as a patch: from the worktree root run `git diff > /tmp/out{R}_{id}/patch.diff` (leave the change applied in the worktree as well). The patch must touch only files under rdflib/ (no test files).
4. Write /tmp/out{R}_{id}/notes.txt: 3-8 lines: what the change is, why it looks innocent, exactly what is needed for it to manifest (the sequence / input), which tests you ran and their outcome. If, while exploring, you meet behaviour of the UNCHANGED tree that already breaks the property, add it as an aside.

ALREADY TAKEN by earlier changes (choose something clearly different: another function or module, another clause of the property; read the property text again and look for a clause, an input kind, an API entry point or a configuration that none of these touches):
{taken}

NOTE: a script stored outside the worktree imports the installed rdflib, not the worktree's: make demo.py put the current working directory first on sys.path (sys.path.insert(0, os.getcwd())) and run it with the worktree as cwd.

Keep the change small (a few lines). Do not weaken or delete tests. Do not add new files to rdflib. Finish by printing the contents of notes.txt as your final answer.
"""

for line in open("/verif/properties.jsonl"):
    p = json.loads(line)
    taken = []
    for m in sorted(glob.glob("/verif/seeded/%s-*/meta.json" % p["id"])):
        n = json.load(open(m)).get("author_notes", "").strip().split("\n")[0]
        taken.append(" - " + n[:260])
    open("/tmp/agent_prompt%s_%s.txt" % (R, p["id"]), "w").write(TEMPLATE.format(statement=p["statement"], R=R, id=p["id"], taken="\n".join(taken) or " - (none yet)"))
    print(p["id"], len(taken))
